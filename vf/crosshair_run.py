"""Runs CrossHair conditions (one process per condition) and parses verdicts."""
import importlib
import os
import re
import subprocess
import sys
import time

from vf import framework


def ch_job(name, target, timeout_s=60, per_path_timeout=None, twin=False):
  """target: dotted name of a harness function, e.g. vf.ch.c14.topk4."""
  js = framework.JobStats(name)
  env = dict(os.environ)
  env['PYTHONHASHSEED'] = '0'
  env.pop('CROSSHAIR_ONLY_FINITE_FLOATS', None)
  cmd = [sys.executable, '-m', 'crosshair', 'check', '--report_all',
         '--per_condition_timeout', str(timeout_s)]
  if per_path_timeout:
    cmd += ['--per_path_timeout', str(per_path_timeout)]
  cmd.append(target)
  t = time.time()
  p = subprocess.run(cmd, capture_output=True, text=True, env=env,
                     timeout=timeout_s * 4 + 120)
  wall = time.time() - t
  out = p.stdout + p.stderr
  js.r['obligations'] = 1
  js.r['paths'] = 1
  js.r['forks'] = 1
  js.r['solver_s'] = wall
  js.r['final_queries'] = 1
  js.r['exhaustive'] = True
  js.r['samples'] = [dict(condition=target, crosshair_output=out.strip()[
      -400:], wall_s=round(wall, 1))]
  mod, fn = target.rsplit('.', 1)
  js.r['functions'] = [target]
  if 'Confirmed over all paths' in out and 'error' not in out:
    js.r['discharged'] = 1
    js.r['final_unsat'] = 1
    js.r['nontrivial'] = 1
    return js.r
  m = re.search(r'error: (?:false|.*?) when calling (\w+\(.*\))(?: \(which '
                r'returns|$)', out, re.S)
  m2 = re.search(r'when calling (.*?)(?: \(which returns .*\))?$', out, re.M)
  if 'error:' in out and m2:
    call = m2.group(1).strip()
    js.r['final_sat'] = 1
    js.r['nontrivial'] = 1
    js.r['violations'].append(dict(
        case=dict(kind='crosshair', target=target, call=call), twin=twin,
        detail=out.strip()[-500:]))
    return js.r
  js.r['final_unknown'] = 1
  js.r['inconclusive'].append('crosshair did not confirm %s: %s' % (
      target, out.strip()[-300:]))
  return js.r


def replay_call(case, pid, key_fn=None):
  """Re-evaluates the concrete call without CrossHair; the harness functions
  return True iff the property instance holds."""
  mod_name, fn = case['target'].rsplit('.', 1)
  mod = importlib.import_module(mod_name)
  ns = dict(vars(mod))
  ns.update(float=float, nan=float('nan'), inf=float('inf'))
  try:
    res = eval(case['call'], ns)  # pylint: disable=eval-used
  except Exception as e:  # pylint: disable=broad-except
    f = getattr(mod, fn)
    doc = f.__doc__ or ''
    raises = re.findall(r'raises:\s*(.*)', doc)
    allowed = [x.strip() for r in raises for x in r.split(',')]
    if type(e).__name__ in allowed:
      return dict(violates=False, detail='raises declared %s' % type(
          e).__name__)
    return dict(violates=True, key='%s:%s:%s' % (pid, fn, type(e).__name__),
                detail='%s raised %s: %s' % (case['call'], type(e).__name__,
                                              e))
  if res is False:
    return dict(violates=True, key='%s:%s' % (pid, fn),
                detail='%s returned False' % case['call'])
  return dict(violates=False, detail='%s returned %r' % (case['call'], res))
