"""CrossHair conditions over the real GeoAssignments (C16, partition)."""
from typing import Set

from matched_markets.methodology.geoeligibility import GeoAssignments


def partition(c: Set[int], t: Set[int], x: Set[int], g: int) -> bool:
  """For arbitrary sets and a generic element: exactly one of the seven
  classes iff the element is in any set, and each class <=> its row.

  pre: len(c) <= 3 and len(t) <= 3 and len(x) <= 3
  post: _
  """
  a = GeoAssignments(c, t, x)
  classes = [a.c_fixed, a.t_fixed, a.x_fixed, a.ct, a.cx, a.tx, a.ctx]
  n = sum(1 for s in classes if g in s)
  inall = (g in c) or (g in t) or (g in x)
  ok = (n == (1 if inall else 0)) and ((g in a.all) == inall)
  row = (g in c, g in t, g in x)
  ok = ok and ((g in a.c_fixed) == (row == (True, False, False)))
  ok = ok and ((g in a.t_fixed) == (row == (False, True, False)))
  ok = ok and ((g in a.x_fixed) == (row == (False, False, True)))
  ok = ok and ((g in a.ct) == (row == (True, True, False)))
  ok = ok and ((g in a.cx) == (row == (True, False, True)))
  ok = ok and ((g in a.tx) == (row == (False, True, True)))
  ok = ok and ((g in a.ctx) == (row == (True, True, True)))
  ok = ok and (g in a.c) == row[0] and (g in a.t) == row[1] and (
      g in a.x) == row[2]
  return ok
