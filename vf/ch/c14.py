"""CrossHair conditions over the real HeapDict (C14, container part).

Every function returns True iff the property instance holds; the
postcondition is `_`.  A counterexample is therefore a concrete call that
returns False, which the replay step re-evaluates without CrossHair.
"""
from typing import List, Tuple

from matched_markets.methodology.heapdict import HeapDict


class Item:
  """An item that defines only __lt__ (like TBRMMDesign), ordered by `a`."""

  def __init__(self, a: int, tag: int):
    self.a = a
    self.tag = tag

  def __lt__(self, other: 'Item') -> bool:
    return self.a < other.a


def _expect(items, k):
  return sorted(items, reverse=True)[:max(k, 0)]


def topk3(a: int, b: int, c: int, k: int) -> bool:
  """
  pre: 0 <= k <= 4
  post: _
  """
  h = HeapDict(k)
  for it in (a, b, c):
    h.push(0, it)
  return h.get_result().get(0, []) == _expect([a, b, c], k)


def topk4(a: int, b: int, c: int, d: int, k: int) -> bool:
  """
  pre: 0 <= k <= 5
  post: _
  """
  h = HeapDict(k)
  for it in (a, b, c, d):
    h.push(0, it)
  return h.get_result().get(0, []) == _expect([a, b, c, d], k)


def topk5(a: int, b: int, c: int, d: int, e: int, k: int) -> bool:
  """
  pre: 0 <= k <= 5
  post: _
  """
  h = HeapDict(k)
  for it in (a, b, c, d, e):
    h.push(0, it)
  return h.get_result().get(0, []) == _expect([a, b, c, d, e], k)


def reads_interleaved(a: int, b: int, c: int, d: int, k: int, r2: bool,
                      r3: bool) -> bool:
  """Reading the container at any point of a push sequence changes nothing.

  pre: 0 <= k <= 3
  post: _
  """
  h = HeapDict(k)
  ok = True
  pushed = []
  for it, rd in ((a, False), (b, r2), (c, r3), (d, True)):
    h.push(0, it)
    pushed.append(it)
    if rd:
      got = h.get_result().get(0, [])
      again = h.get_result().get(0, [])
      ok = ok and got == _expect(pushed, k) and again == got
  return ok


def two_keys(a: int, b: int, c: int, d: int, ka: bool, kb: bool, kc: bool,
             kd: bool, k: int) -> bool:
  """
  pre: 0 <= k <= 3
  post: _
  """
  h = HeapDict(k)
  items = [(ka, a), (kb, b), (kc, c), (kd, d)]
  for key, it in items:
    h.push(key, it)
  r1 = h.get_result()
  r2 = h.get_result()
  ok = r1 == r2
  for key in (False, True):
    mine = [it for kk, it in items if kk == key]
    ok = ok and r1.get(key, []) == _expect(mine, k)
    if not mine:
      ok = ok and key not in r1
  return ok


def result_is_a_copy(a: int, b: int, c: int, k: int) -> bool:
  """Mutating the returned lists does not change the container.

  pre: 1 <= k <= 3
  post: _
  """
  h = HeapDict(k)
  for it in (a, b, c):
    h.push(0, it)
  r = h.get_result()
  r[0].append(10**9)
  r[0].reverse()
  r[1] = [7]
  return h.get_result() == {0: _expect([a, b, c], k)}


def step(q: List[int], x: int, k: int) -> bool:
  """Inductive step: any heap-ordered queue of length <= k, one more push.

  pre: 0 <= k <= 4
  pre: len(q) <= k
  pre: all(q[(i - 1) // 2] <= q[i] for i in range(1, len(q)))
  post: _
  """
  old = list(q)
  h = HeapDict(k)
  h._result[0] = q
  h.push(0, x)
  new = h._result[0]
  heap_ok = all(new[(i - 1) // 2] <= new[i] for i in range(1, len(new)))
  return heap_ok and sorted(new) == sorted(_expect(old + [x], k))


def lt_only_items(a: int, b: int, c: int, d: int, k: int) -> bool:
  """Items that define only __lt__: the k largest (by key) in descending order,
  as a multiset of keys; every reported item was pushed.

  pre: 0 <= k <= 4
  post: _
  """
  items = [Item(a, 0), Item(b, 1), Item(c, 2), Item(d, 3)]
  h = HeapDict(k)
  for it in items:
    h.push('q', it)
  got = h.get_result().get('q', [])
  keys = [it.a for it in got]
  tags = [it.tag for it in got]
  return (keys == _expect([a, b, c, d], k) and len(set(tags)) == len(tags) and
          all(items[t].a == ka for t, ka in zip(tags, keys)))
