"""CrossHair conditions over the real TBRMMDesignParameters (C17).

IEEE floats (NaN, +-inf) are inside the quantifier here.  Every function
returns True iff acceptance agrees with the documented domain predicate.
"""
import dataclasses
import math

from matched_markets.methodology.tbrmmdesignparameters import TBRMMDesignParameters

# _is_optional hashes typing objects, which CrossHair's proxies do not
# tolerate; the table is computed once from the real method (stub, listed).
_p = TBRMMDesignParameters(n_test=1, iroas=0.0)
_OPT = {f.name: _p._is_optional(f.name)
        for f in dataclasses.fields(TBRMMDesignParameters)}
TBRMMDesignParameters._is_optional = lambda self, attr: _OPT[attr]


def accepts(**kw) -> bool:
  base = dict(n_test=7, iroas=1.0)
  base.update(kw)
  try:
    TBRMMDesignParameters(**base)
    return True
  except ValueError:
    return False


def n_test_int(v: int) -> bool:
  """
  pre: -1000 <= v <= 1000
  post: _
  """
  return accepts(n_test=v) == (v >= 1)


def n_designs_int(v: int) -> bool:
  """
  pre: -1000 <= v <= 1000
  post: _
  """
  return accepts(n_designs=v) == (v >= 1)


def n_geos_max_int(v: int) -> bool:
  """
  pre: -1000 <= v <= 1000
  post: _
  """
  return accepts(n_geos_max=v) == (v >= 2)


def n_pretest_max_int(v: int) -> bool:
  """
  pre: -1000 <= v <= 1000
  post: _
  """
  return accepts(n_pretest_max=v) == (v >= 3)


def iroas_float(v: float) -> bool:
  """
  post: _
  """
  return accepts(iroas=v) == (v >= 0.0)


def vol_float(v: float) -> bool:
  """
  post: _
  """
  return accepts(volume_ratio_tolerance=v) == (v > 0.0)


def gratio_float(v: float) -> bool:
  """
  post: _
  """
  return accepts(geo_ratio_tolerance=v) == (v > 0.0)


def rho_max_float(v: float) -> bool:
  """
  post: _
  """
  return accepts(rho_max=v) == (0.9 <= v < 1.0)


def sig_level_float(v: float) -> bool:
  """
  post: _
  """
  return accepts(sig_level=v) == (0.0 < v < 1.0)


def power_level_float(v: float) -> bool:
  """
  post: _
  """
  return accepts(power_level=v) == (0.0 < v < 1.0)


def min_corr_float(v: float) -> bool:
  """
  post: _
  """
  return accepts(min_corr=v) == (0.8 <= v < 1.0)


def flevel_float(v: float) -> bool:
  """
  post: _
  """
  return accepts(flevel=v) == (0.9 <= v < 1.0)


def share_range_ff(a: float, b: float) -> bool:
  """
  post: _
  """
  return accepts(treatment_share_range=(a, b)) == (0.0 < a < b < 1.0)


def budget_range_ff(a: float, b: float) -> bool:
  """
  post: _
  """
  return accepts(budget_range=(a, b)) == (0.0 <= a < b < math.inf)


def int_range_nonfinite(a: float, b: float, which: bool) -> bool:
  """A non-finite member of an integer pair is rejected (with ValueError).

  pre: not (math.isfinite(a) and math.isfinite(b))
  post: _
  """
  if which:
    return not accepts(treatment_geos_range=(a, b))
  return not accepts(control_geos_range=(a, b))


def int_field_nonfinite(v: float, which: int) -> bool:
  """A non-finite value of an integer-valued field is rejected (ValueError).

  pre: not math.isfinite(v)
  pre: 0 <= which <= 3
  post: _
  """
  name = ['n_test', 'n_geos_max', 'n_pretest_max', 'n_designs'][which]
  return not accepts(**{name: v})


def eq_fieldwise(a: int, b: int, c: float, d: float) -> bool:
  """
  pre: a >= 1 and b >= 1 and c >= 0.0 and d >= 0.0
  post: _
  """
  p = TBRMMDesignParameters(n_test=a, iroas=c)
  q = TBRMMDesignParameters(n_test=b, iroas=d)
  return (p == q) == (a == b and c == d)
