"""Regenerates /verif/MANIFEST.json from the check modules (python -m vf.manifest)."""
import importlib
import json
import os
import subprocess

VERIF = os.path.dirname(os.path.dirname(os.path.abspath(__file__)))
ALL = ['C%02d' % i for i in range(1, 21)]

PENDING_REASON = ('harness not finished in this build round; solver-based '
                  'design in DESIGN.md section 6; not claimed until its check '
                  'runs quietly on the unchanged tree')


def main():
  checks, na = [], []
  for pid in ALL:
    path = os.path.join(VERIF, 'vf', 'checks', pid.lower() + '.py')
    if not os.path.exists(path):
      na.append(dict(property_id=pid, reason=NA.get(pid, PENDING_REASON)))
      continue
    mod = importlib.import_module('vf.checks.' + pid.lower())
    meta = mod.META
    checks.append(dict(
        property_id=pid,
        quick_cmd='bin/verif check %s --tier quick' % pid,
        thorough_cmd='bin/verif check %s --tier thorough' % pid,
        evidence_file='evidence/%s.json' % pid,
        replay_cmd_template='bin/verif replay {path}',
        engine=meta.get('engine', 'symx'),
        level_claimed=dict(
            category='model_checking',
            text=meta['explanation'],
            design_ref=meta.get('design_ref', 'DESIGN.md section 6 (%s)' % pid)),
        level_note='Bounds: %s. Outside: %s. Trusted: %s' % (
            json.dumps(meta.get('bounds')), meta.get('outside', ''),
            '; '.join(meta.get('assumptions', []) + ['stubs: ' + '; '.join(
                meta.get('stubs', [])) if meta.get('stubs') else 'no stubs'])),
        technique=meta.get('technique', 'bounded symbolic (concolic) execution '
                           'of the real Python on z3 terms; per-path SMT '
                           'verdicts; counterexamples replayed on the real '
                           'code'),
    ))
  src = subprocess.run(['git', '-C', '/repo', 'log', '--format=%h %s'],
                       capture_output=True, text=True).stdout.splitlines()
  man = dict(
      version=1,
      setup_cmd='bin/ensure_env',
      hooks=dict(
          guard='MATCHED_MARKETS_VERIF',
          enable='no source hooks: harnesses install recording wrappers and '
          'contract stubs by assigning module attributes at run time '
          '(bin/verif exports MATCHED_MARKETS_VERIF=1 for information only)',
          baseline_off_cmd='cd /repo && /venv/bin/python -m pytest -ra -q -p '
          'no:cacheprovider --timeout=900 --continue-on-collection-errors',
          source_commits=[],
          add_only=True),
      engines=[
          dict(name='symx', path='vf/symx.py', serves_properties=ALL,
               kind_free_text='concolic executor: SNum/SBool wrap z3 terms, '
               'fork by re-execution, solver concretisation of ints; symbolic '
               'scalars flow through the real numpy/pandas in object arrays'),
          dict(name='crosshair', path='vf/crosshair_run.py',
               serves_properties=['C14', 'C16', 'C17'],
               kind_free_text='crosshair-tool 0.0.110 (z3-backed symbolic '
               'execution of Python) on the real HeapDict / GeoAssignments / '
               'TBRMMDesignParameters')],
      checks=checks,
      not_applicable=na,
      notes='Fix commits in /repo (unguarded, one defect each): ' + ' | '.join(
          l for l in src if ' fix:' in l),
  )
  json.dump(man, open(os.path.join(VERIF, 'MANIFEST.json'), 'w'), indent=1)
  print('claimed', [c['property_id'] for c in checks])
  print('not_applicable', [n['property_id'] for n in na])


NA = {}

if __name__ == '__main__':
  main()
