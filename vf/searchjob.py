"""Generic family-S job: explore all paths of a real search over symbolic
parameters / eligibility cells and discharge oracle obligations per path."""
import time

import numpy as np
import z3

from vf import framework
from vf import search
from vf import symx
from vf.symx import eng


# ---------------------------------------------------------------------------
# oracles: f(ctx, out) -> list of (clause_name, z3 formula | bool, detail)
# ---------------------------------------------------------------------------
def _admitted(out):
  if out.mm is None or out.mm.data.geo_index is None:
    return []
  return list(out.mm.data.geo_index)


def oracle_legal(ctx, out):
  obs = []
  for T, C, _ in search.designs_of(out):
    bad = search.legal(out.rows, T, C, ctx.ids)
    obs.append(('legal', not bad, dict(T=sorted(T), C=sorted(C), failed=bad)))
  return obs


def oracle_admitted(ctx, out):
  """Unit lemma on geos_within_constraints: subset of assignable geos and
  superset of the geos that must be included."""
  if out.mm is None:
    return []
  adm = set(out.mm.geos_within_constraints)
  assignable, must = search.eligibility_sets(out.rows)
  bad = []
  if not adm <= assignable:
    bad.append('admitted-not-assignable')
  if not must <= adm:
    bad.append('must-include-not-admitted')
  return [('admitted', not bad, dict(admitted=sorted(adm), failed=bad))]


def oracle_constraints(ctx, out):
  obs = []
  adm = _admitted(out)
  for T, C, _ in search.designs_of(out):
    terms = search.constraint_terms(ctx, out, T, C, adm, 'loose')
    for name, f in terms.items():
      obs.append(('constraint:' + name, f, dict(T=sorted(T), C=sorted(C))))
  return obs


def oracle_capped_sorted(ctx, out):
  res = out.result
  k = out.sv.get('k')
  kk = k if k is not None else int(out.par.n_designs)
  obs = [('capped', (len(res) <= kk) if k is not None else len(res) <= kk,
          dict(n=len(res)))]
  scores = [tuple(d.score.score) for d in res]
  okk = all(not (scores[i] < scores[i + 1]) for i in range(len(scores) - 1))
  nan = any(any(isinstance(v, float) and v != v for v in s) for s in scores)
  obs.append(('sorted', okk or nan, dict(scores=[list(map(float, s)) for s in
                                                 scores])))
  return obs


def _close(a, b, rtol=1e-9):
  a, b = float(a), float(b)
  if a != a and b != b:
    return True
  if a in (float('inf'), float('-inf')) or b in (float('inf'), float('-inf')):
    return a == b
  return abs(a - b) <= rtol * max(abs(a), abs(b), 1e-300)


def oracle_diag(ctx, out, budget_last_entry=None):
  """C04: diagnostics and score attached to each returned design equal the
  values recomputed from the raw frame over the reported IDs."""
  obs = []
  pk = search.par_key(out)
  rp = search.ref_par(ctx, out)
  p = out.par
  # the caller edits its parameter object after the search: the designs'
  # diagnostics must keep the values of the search (they hold copies)
  saved_fields = (p.min_corr, p.sig_level, p.power_level)
  p.min_corr, p.sig_level, p.power_level = 0.999999, 0.55, 0.51
  try:
    return _oracle_diag_body(ctx, out, obs, pk, rp, p)
  finally:
    p.min_corr, p.sig_level, p.power_level = saved_fields


def _oracle_diag_body(ctx, out, obs, pk, rp, p):
  for pos, (T, C, d) in enumerate(search.designs_of(out)):
    det = dict(pos=pos, T=sorted(T), C=sorted(C))
    y = ctx.series(T, out.window)
    x = ctx.series(C, out.window)
    ok_series = (len(d.diag.y) == len(y) and len(d.diag.x) == len(x) and
                 np.allclose(d.diag.y, y, rtol=1e-9, atol=1e-9) and
                 np.allclose(d.diag.x, x, rtol=1e-9, atol=1e-9))
    obs.append(('diag-series', bool(ok_series), det))
    if not ok_series:
      continue
    ref = ctx.fresh_diag(T, C, pk, rp)
    rd = ref['diag']
    ok = _close(d.diag.corr, ref['corr']) and _close(
        d.diag.required_impact, ref['required_impact'])
    obs.append(('diag-values', ok, dict(det, got=(float(d.diag.corr), float(
        d.diag.required_impact)), want=(ref['corr'], ref['required_impact']))))
    got_tests = (bool(d.diag.corr_test), bool(d.diag.aatest.test_ok), bool(
        d.diag.bbtest.test_ok), bool(d.diag.dwtest.test_ok))
    want_tests = (bool(rd.corr_test), bool(rd.aatest.test_ok), bool(
        rd.bbtest.test_ok), bool(rd.dwtest.test_ok))
    obs.append(('diag-tests', got_tests == want_tests, dict(
        det, got=got_tests, want=want_tests)))
    sc = tuple(d.score.score)
    want = list(ref['score'])
    if out.budget_scoring:
      # exhaustive search with a budget range: last entry is
      # budget_max / required_impact
      bmax = out.sv['budget'][1] if 'budget' in out.sv else search.F(
          p.budget_range[1])
      first = all(_close(a, b) for a, b in zip(sc[:5], want[:5]))
      last = sc[5]
      ri = search.F(ref['required_impact'])
      if isinstance(last, symx.SNum):
        m = search.MARGIN
        f = z3.And(last.e * ri <= bmax * (1 + search.F(m)),
                   last.e * ri >= bmax * (1 - search.F(m)))
      else:
        f = z3.And(search.F(last) * ri <= bmax * (1 + search.F(
            search.MARGIN)), search.F(last) * ri >= bmax * (1 - search.F(
                search.MARGIN)))
      obs.append(('score-head', first, dict(det, got=[float(v) for v in
                                                      sc[:5]], want=want[:5])))
      obs.append(('score-last-budget', f, det))
    else:
      okk = all(_close(a, b) for a, b in zip(sc, want))
      obs.append(('score', okk, dict(det, got=[float(v) for v in sc],
                                     want=want)))
  return obs


ORACLES = dict(legal=oracle_legal, admitted=oracle_admitted,
               constraints=oracle_constraints,
               capped_sorted=oracle_capped_sorted, diag=oracle_diag)


def evaluate(ctx, out, oracles, pid):
  """Returns (obligations list, nontrivial flag)."""
  obs = []
  if out.exc is not None:
    if 'total' in oracles:
      ok = isinstance(out.exc, ValueError)
      obs.append(('total', ok, dict(exc='%s: %s' % (type(out.exc).__name__,
                                                    str(out.exc)[:200]))))
    elif not isinstance(out.exc, ValueError):
      # not this property's business (C09 judges exception types), but a
      # path that ends in an unexpected exception proves nothing: report it.
      obs.append(('unexpected-exception', None, dict(
          exc='%s: %s' % (type(out.exc).__name__, str(out.exc)[:200]))))
    return obs, False
  if 'total' in oracles:
    obs.append(('total', isinstance(out.result, list), dict(n=len(
        out.result) if isinstance(out.result, list) else None)))
  for o in oracles:
    if o in ORACLES:
      obs.extend(ORACLES[o](ctx, out))
  return obs, bool(out.result)


def search_job(pid, name, panel, method, sym=(), conc=None, elig=None,
               oracles=(), seed=0, twin=False, max_s=600, elig_fix=None,
               record_push=False, extra_oracle=None, path_timeout=None,
               history=None):
  """Explores all paths; per path discharges `pc => clause` for every oracle
  clause.  elig_fix: when elig == 'sym', dict geo->row-type fixing some rows
  (used to split the 7^N matrices over jobs)."""
  symx.patch_pandas()
  ctx = search.Ctx(panel, seed)
  js = framework.JobStats(name)
  trace = symx.FunctionTrace(framework.REPO)
  e = symx.Engine()
  state = dict(n=0)
  budget_scoring = (method == 'exhaustive' and ('budget' in sym or (
      conc or {}).get('budget_range') is not None))

  def fn():
    if elig == 'sym' and elig_fix:
      # assume the fixed rows before the table is built
      pass
    out = search.run(ctx, method, sym=sym, conc=conc, elig=elig,
                     record_push=record_push, path_timeout=path_timeout,
                     history=history)
    out.budget_scoring = budget_scoring
    obs, nontrivial = evaluate(ctx, out, oracles, pid)
    if extra_oracle is not None:
      import importlib
      mod, fname = extra_oracle
      obs.extend(getattr(importlib.import_module(mod), fname)(ctx, out))
      nontrivial = nontrivial or bool(obs)
    return out, obs, nontrivial

  def fn_fixed():
    # wrapper installing row fixes as assumptions on the cell variables
    if elig == 'sym' and elig_fix:
      for g, rt in elig_fix.items():
        c, t, x = search.ROW_TYPES[rt]
        for nm, val in (('c', c), ('t', t), ('x', x)):
          v = z3.Int('e_%s_%s' % (g, nm))
          eng().assume(v == val)
    return fn()

  def on_path(eng_, res):
    if res[0] == 'exc':
      js.r['inconclusive'].append('harness exception: %r' % (res[1],))
      return
    out, obs, nontrivial = res[1]
    if nontrivial:
      js.r['nontrivial'] += 1
    if twin:
      obs = [('twin', False, {})]
    case_base = None
    for cname, f, det in obs:
      if f is None:
        js.r['inconclusive'].append('%s on a path: %s' % (cname, det))
        continue
      js.r['obligations'] += 1
      if isinstance(f, (bool, np.bool_)):
        if f:
          js.r['discharged'] += 1
          continue
        model = eng_.witness()
        verdict = 'sat' if model is not None else 'unknown'
      else:
        verdict, model = eng_.prove(f)
        if verdict == 'unsat':
          js.r['discharged'] += 1
          continue
      if verdict == 'unknown':
        js.r['inconclusive'].append('solver unknown on clause %s' % cname)
        continue
      vals = search.model_params(model, out)
      case = dict(kind='search', panel=panel, seed=seed, method=method,
                  elig=out.rows if elig is not None else None,
                  conc=search.apply_concrete(conc, vals), oracles=list(
                      oracles), extra_oracle=extra_oracle,
                  record_push=record_push, path_timeout=path_timeout,
                  history=history)
      if len(js.r['violations']) < 40:
        js.r['violations'].append(dict(case=case, clause=cname, twin=twin,
                                       detail=dict(clause=cname, info=det)))
    state['n'] += 1
    if len(js.r['samples']) < 2:
      w = eng_.witness()
      js.r['samples'].append(dict(
          job=name, path_condition_model=search.model_params(w, out) if w
          else None, eligibility=out.rows if elig is not None else 'default',
          outcome=('%s: %s' % (type(out.exc).__name__, str(out.exc)[:80]))
          if out.exc is not None else [
              dict(T=sorted(T), C=sorted(C)) for T, C, _ in
              search.designs_of(out)], clauses=len(obs)))

  trace.start()
  try:
    status = e.explore(fn_fixed, on_path, max_s=max_s)
  finally:
    pass
  return js.finish(e, status, trace)


def replay_search(case, pid):
  """Concrete re-run on the real code, same oracles, no symx."""
  ctx = search.Ctx(case['panel'], case.get('seed', 0))
  elig = case.get('elig')
  if elig is not None:
    inv = {v: k for k, v in search.ROW_TYPES.items()}
    elig = {g: inv[tuple(r)] for g, r in elig.items() if r is not None}
  conc = dict(case.get('conc') or {})
  for k, v in list(conc.items()):
    if isinstance(v, list):
      conc[k] = tuple(v)
  try:
    out = search.run(ctx, case['method'], sym=(), conc=conc, elig=elig,
                     record_push=case.get('record_push', False),
                     path_timeout=60 if case.get('path_timeout') else None,
                     history=case.get('history'))
  except ValueError as ex:
    return dict(violates=False, detail='input rejected: %s' % ex)
  out.budget_scoring = (case['method'] == 'exhaustive' and conc.get(
      'budget_range') is not None)
  obs, _ = evaluate(ctx, out, case['oracles'], pid)
  if case.get('extra_oracle'):
    import importlib
    mod, fname = case['extra_oracle']
    obs.extend(getattr(importlib.import_module(mod), fname)(ctx, out))
  failed = []
  for cname, f, det in obs:
    if f is None:
      continue
    if not isinstance(f, (bool, np.bool_)):
      f = z3.is_true(z3.simplify(f))
    if not f:
      failed.append((cname, det))
  if not failed:
    return dict(violates=False, detail='all clauses hold concretely')
  cname, det = failed[0]
  sub = ''
  if isinstance(det, dict):
    if det.get('failed'):
      sub = ','.join(det['failed'])
    elif det.get('exc'):
      sub = det['exc'].split(':')[0]
  key = '%s:%s:%s:%s' % (pid, case['method'], cname, sub)
  return dict(violates=True, key=key, detail='%s %s' % (cname, det))
