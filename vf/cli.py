"""verif check <ID> [--tier quick|thorough]; verif replay <file>."""
import argparse
import importlib
import json
import os
import sys

from vf import framework


def main():
  ap = argparse.ArgumentParser()
  sub = ap.add_subparsers(dest='cmd', required=True)
  c = sub.add_parser('check')
  c.add_argument('pid')
  c.add_argument('--tier', default=os.environ.get('VERIF_TIER', 'quick'),
                 choices=['quick', 'thorough'])
  r = sub.add_parser('replay')
  r.add_argument('path')
  a = ap.parse_args()
  if a.cmd == 'check':
    os.environ['VERIF_TIER'] = a.tier
    mod = importlib.import_module('vf.checks.%s' % a.pid.lower())
    sys.exit(framework.run_check(mod, a.tier))
  if a.cmd == 'replay':
    rec = json.load(open(a.path))
    mod = importlib.import_module(rec['module'])
    res = mod.replay(rec['case'])
    print(json.dumps(framework._jsonable(res), indent=1))
    if res.get('violates'):
      print('VIOLATION property=%s replay=%s' % (rec['property'], a.path))
      sys.exit(1)
    print('not reproduced on the current tree')
    sys.exit(0)


if __name__ == '__main__':
  main()
