"""SearchRun: the real TBRMatchedMarkets searches on a concrete panel with
symbolic design parameters / eligibility cells, plus independent oracles.

Everything the oracles use is computed from the raw long-format frame by this
module (own pivot, own sums); TBRMMDiagnostics/TBRMMScore are used only as the
reference "recompute from the two series and the parameters alone" of C04.
"""
import fractions
import itertools

import numpy as np
import pandas as pd
import z3

from vf import panels
from vf import symx
from vf.symx import F, SNum, eng

Fraction = fractions.Fraction
MARGIN = Fraction(1, 10**9)

ROW_TYPES = {  # name -> (control, treatment, exclude)
    'ctx': (1, 1, 1), 'ct': (1, 1, 0), 'cx': (1, 0, 1), 'tx': (0, 1, 1),
    'c': (1, 0, 0), 't': (0, 1, 0), 'x': (0, 0, 1)}


def _imports():
  from matched_markets.methodology import geoeligibility
  from matched_markets.methodology import heapdict
  from matched_markets.methodology import tbrmatchedmarkets
  from matched_markets.methodology import tbrmmdata
  from matched_markets.methodology import tbrmmdesignparameters
  from matched_markets.methodology import tbrmmdiagnostics
  from matched_markets.methodology import tbrmmscore
  return dict(ge=geoeligibility, hd=heapdict, mm=tbrmatchedmarkets,
              data=tbrmmdata, par=tbrmmdesignparameters,
              diag=tbrmmdiagnostics, score=tbrmmscore)


class Ctx:
  """Concrete panel + facts derived from the raw frame."""

  def __init__(self, panel_name, seed=0, df=None, n_test=None):
    if df is None:
      df, n_test = panels.panel(panel_name, seed)
    self.name = panel_name
    self.df = df
    self.n_test = n_test
    piv = df.assign(geo=df.geo.astype(str)).pivot_table(
        values='sales', index='geo', columns='date', aggfunc='mean',
        fill_value=0)
    piv = piv[sorted(piv.columns)]
    means = piv.mean(axis=1)
    # rows by non-increasing mean (stable on ties: keep both orders legal).
    self.piv = piv
    self.means = {g: float(means[g]) for g in piv.index}
    tot = float(sum(self.means.values()))
    self.share = {g: self.means[g] / tot for g in piv.index}
    self.ids = list(piv.index)
    self.N = len(self.ids)
    self.D = piv.shape[1]
    self.M = _imports()
    self._diag_cache = {}
    self._opt_cache = {}

  # ---- independent numerics (reference = fresh real diagnostics) ---------
  def series(self, geos, window):
    a = self.piv.loc[sorted(geos)].to_numpy()[:, -window:]
    return a.sum(axis=0)

  def fresh_diag(self, T, C, par_key, par):
    key = (frozenset(T), frozenset(C), par_key)
    if key not in self._diag_cache:
      d = self.M['diag'].TBRMMDiagnostics(self.series(T, par_key[0]), par)
      d.x = self.series(C, par_key[0])
      sc = self.M['score'].TBRMMScore(d)
      with np.errstate(all='ignore'):
        ri = d.required_impact
        rec = dict(required_impact=float(ri), corr=float(d.corr),
                   score=tuple(sc.score), diag=d)
      self._diag_cache[key] = rec
    return self._diag_cache[key]

  def optimistic(self, T, par_key, par):
    key = (frozenset(T), par_key)
    if key not in self._opt_cache:
      d = self.M['diag'].TBRMMDiagnostics(self.series(T, par_key[0]), par)
      with np.errstate(all='ignore'):
        self._opt_cache[key] = float(d.estimate_required_impact(par.rho_max))
    return self._opt_cache[key]


def make_par_concrete(ctx, conc):
  kw = dict(n_test=ctx.n_test, iroas=2.0, n_designs=3)
  kw.update(conc or {})
  return ctx.M['par'].TBRMMDesignParameters(**kw)


SYM_DOC = {
    'share': 'treatment_share_range=(slo,shi), 0<slo<shi<1 (reals)',
    'budget': 'budget_range=(blo,bhi), 0<=blo<bhi (reals)',
    'vol': 'volume_ratio_tolerance vt>0 (real)',
    'gratio': 'geo_ratio_tolerance gt>0 (real)',
    'tsize': 'treatment_geos_range=(ta,tb) ints 1<=ta<=tb<=N+1',
    'csize': 'control_geos_range=(ca,cb) ints 1<=ca<=cb<=N+1',
    'ngm': 'n_geos_max int 2..N+1',
    'k': 'n_designs int 1..4',
    'npm': 'n_pretest_max int n_test+3..D+2',
}


def make_params(ctx, sym, conc):
  """Builds the parameter object by the real constructor from concrete
  placeholders, then installs symbolic fields constrained to the documented
  domain.  Returns (par, symvars)."""
  par = make_par_concrete(ctx, conc)
  sv = {}
  N = ctx.N
  for name in sym:
    if name == 'share':
      lo = symx.real('slo', 0, 1)
      hi = symx.real('shi', 0, 1)
      eng().assume(lo.e < hi.e)
      par.treatment_share_range = (lo, hi)
      sv['share'] = (lo.e, hi.e)
    elif name == 'budget':
      lo = symx.real('blo', 0, None, lo_strict=False)
      hi = symx.real('bhi', 0, None)
      eng().assume(lo.e < hi.e)
      par.budget_range = (lo, hi)
      sv['budget'] = (lo.e, hi.e)
    elif name == 'vol':
      v = symx.real('vt', 0, None)
      par.volume_ratio_tolerance = v
      sv['vol'] = v.e
    elif name == 'gratio':
      v = symx.real('gt', 0, None)
      par.geo_ratio_tolerance = v
      sv['gratio'] = v.e
    elif name == 'tsize':
      a = symx.integer('ta', 1, N + 1)
      b = symx.integer('tb', 1, N + 1)
      eng().assume(a.e <= b.e)
      par.treatment_geos_range = (a, b)
      sv['tsize'] = (a.e, b.e)
    elif name == 'csize':
      a = symx.integer('ca', 1, N + 1)
      b = symx.integer('cb', 1, N + 1)
      eng().assume(a.e <= b.e)
      par.control_geos_range = (a, b)
      sv['csize'] = (a.e, b.e)
    elif name == 'ngm':
      v = symx.integer('ngm', 2, N + 1)
      par.n_geos_max = v
      sv['ngm'] = v.e
    elif name == 'k':
      v = symx.integer('k', 1, 4)
      par.n_designs = v
      sv['k'] = v.e
    elif name == 'npm':
      # pandas' iloc validates slice bounds with is_integer(): the symbolic
      # int is concretised by the solver here (one path per value).
      v = symx.integer('npm', ctx.n_test + 3, ctx.D + 2)
      par.n_pretest_max = int(eng().concretize(v.e))
      sv['npm'] = v.e
    else:
      raise KeyError(name)
  return par, sv


def make_elig(ctx, elig):
  """elig: None (default object), dict geo->row-type name (geos may be
  missing = not in the table), or 'sym' (all cells symbolic in {0,1}, no zero
  row).  Returns (GeoEligibility|None, cells) where cells maps geo->
  (c,t,x) of ints or SNums."""
  if elig is None:
    return None, {g: (1, 1, 1) for g in ctx.ids}
  if elig == 'sym':
    cells = {}
    for g in ctx.ids:
      c = symx.integer('e_%s_c' % g, 0, 1)
      t = symx.integer('e_%s_t' % g, 0, 1)
      x = symx.integer('e_%s_x' % g, 0, 1)
      eng().assume(c.e + t.e + x.e >= 1)
      cells[g] = (c, t, x)
  else:
    cells = {g: ROW_TYPES[r] for g, r in elig.items()}
  gs = list(cells)
  tab = pd.DataFrame(dict(geo=gs, control=[cells[g][0] for g in gs],
                          treatment=[cells[g][1] for g in gs],
                          exclude=[cells[g][2] for g in gs]))
  return ctx.M['ge'].GeoEligibility(tab), cells


def concrete_rows(ctx, cells):
  """Concrete (c,t,x) per geo in data; geos absent from the table -> None."""
  rows = {}
  for g in ctx.ids:
    if g not in cells:
      rows[g] = None
      continue
    rows[g] = tuple(int(eng().concretize(v.e)) if isinstance(v, SNum)
                    else int(v) for v in cells[g])
  return rows


class Outcome:
  pass


class SearchTimeout(Exception):
  """A single search call exceeded its wall-clock budget (non-termination
  suspect); judged by the C09 oracle and confirmed by concrete replay."""


def _alarm(signum, frame):
  raise SearchTimeout('search call exceeded its per-path wall-clock budget')


def run(ctx, method, sym=(), conc=None, elig=None, record_push=False,
        path_timeout=None, history=None):
  """One execution of the real search inside the current engine path."""
  import signal
  M = ctx.M
  out = Outcome()
  out.pushed = []
  orig_push = M['hd'].HeapDict.push
  if record_push:
    def _push(self, key, item):
      out.pushed.append((frozenset(item.treatment_geos),
                         frozenset(item.control_geos), item))
      return orig_push(self, key, item)
    M['hd'].HeapDict.push = _push
  out.exc = None
  out.result = None
  out.mm = None
  try:
    par, sv = make_params(ctx, sym, conc)
    out.par, out.sv = par, sv
    ge, cells = make_elig(ctx, elig)
    out.cells = cells
    out.elig_default = elig is None
    try:
      data = M['data'].TBRMMData(ctx.df.copy(), 'sales', ge)
      if history == 'prior':
        # the same data object was used before by another search object with
        # a longer window and no n_geos_max
        par0 = make_par_concrete(ctx, dict(n_pretest_max=ctx.D + 5))
        mm0 = M['mm'].TBRMatchedMarkets(data, par0)
        with np.errstate(all='ignore'):
          mm0.greedy_search()
      if history in ('second_k', 'second_k_empty'):
        k_now = par.n_designs
        par.n_designs = 4
      mm = M['mm'].TBRMatchedMarkets(data, par)
      out.mm = mm
      if history == 'interleave_small':
        # as 'interleave', but the second object admits fewer geos
        mm.treatment_group_size_range()
        par0 = make_par_concrete(ctx, dict(n_pretest_max=int(
            par.n_pretest_max), n_geos_max=2))
        mm0 = M['mm'].TBRMatchedMarkets(data, par0)
        with np.errstate(all='ignore'):
          mm0.greedy_search()
      if history == 'interleave':
        # first object queried, a second object on the same data searched,
        # then the first object searched
        mm.treatment_group_size_range()
        par0 = make_par_concrete(ctx, dict(n_pretest_max=int(
            par.n_pretest_max)))
        mm0 = M['mm'].TBRMatchedMarkets(data, par0)
        with np.errstate(all='ignore'):
          mm0.exhaustive_search()
      if path_timeout:
        signal.signal(signal.SIGALRM, _alarm)
        signal.setitimer(signal.ITIMER_REAL, path_timeout)
      try:
        with np.errstate(all='ignore'):
          if history == 'second':
            # the object has already run both searches once
            mm.greedy_search()
            mm.exhaustive_search()
          if history in ('second_k', 'second_k_empty'):
            # ... with a larger n_designs (set before the object was built),
            # lowered before this search
            mm.greedy_search()
            mm.exhaustive_search()
            par.n_designs = k_now
            if history == 'second_k_empty':
              # ... and the treatment size range made inadmissible
              par.treatment_geos_range = (ctx.N + 1, ctx.N + 2)
          del out.pushed[:]     # keep only the pushes of the judged search
          if method == 'exhaustive':
            out.result = mm.exhaustive_search()
          else:
            out.result = mm.greedy_search()
      finally:
        if path_timeout:
          signal.setitimer(signal.ITIMER_REAL, 0)
    except Exception as e:  # pylint: disable=broad-except
      out.exc = e
  finally:
    if record_push:
      M['hd'].HeapDict.push = orig_push
  out.rows = concrete_rows(ctx, out.cells)
  out.window = None
  if 'npm' in sv:
    out.window = int(eng().concretize(sv['npm']))
  else:
    out.window = min(ctx.D, int(par.n_pretest_max))
  out.window = min(out.window, ctx.D)
  return out


def designs_of(out):
  """[(T ids frozenset, C ids frozenset, design)] of the returned list."""
  res = []
  for d in out.result:
    res.append((frozenset(d.treatment_geos), frozenset(d.control_geos), d))
  return res


def pushed_ids(out):
  gi = list(out.mm.data.geo_index)
  res = []
  for T, C, item in out.pushed:
    res.append((frozenset(gi[i] for i in T), frozenset(gi[i] for i in C),
                item))
  return res


# ---------------------------------------------------------------------------
# oracles (no repo search code involved)
# ---------------------------------------------------------------------------
def legal(rows, T, C, data_ids):
  """C01 predicate on a concrete design; returns list of failed clauses."""
  bad = []
  if not T:
    bad.append('empty-treatment')
  if not C:
    bad.append('empty-control')
  if T & C:
    bad.append('overlap')
  if not (T | C) <= set(data_ids):
    bad.append('geo-not-in-data')
  for g in T:
    r = rows.get(g)
    if r is None or r[1] != 1:
      bad.append('treatment-geo-not-eligible')
  for g in C:
    r = rows.get(g)
    if r is None or r[0] != 1:
      bad.append('control-geo-not-eligible')
  for g, r in rows.items():
    if r is not None and r[2] == 0 and g not in (T | C):
      bad.append('must-include-geo-omitted')
    if r == (0, 0, 1) and g in (T | C):
      bad.append('must-exclude-geo-present')
  return sorted(set(bad))


def all_designs(ids):
  for a in itertools.product('CTX', repeat=len(ids)):
    T = frozenset(g for g, s in zip(ids, a) if s == 'T')
    C = frozenset(g for g, s in zip(ids, a) if s == 'C')
    if T and C:
      yield T, C


def _loose(v, lo, hi):
  """v (concrete) inside [lo, hi] up to the relative don't-care margin."""
  v = Fraction(v)
  up, dn = v * (1 + MARGIN), v * (1 - MARGIN)
  if v < 0:
    up, dn = dn, up
  return z3.And(z3.RealVal(up) >= lo, z3.RealVal(dn) <= hi)


def _strict(v, lo, hi):
  """v (concrete) inside [lo, hi] by at least the margin."""
  v = Fraction(v)
  up, dn = v * (1 + MARGIN), v * (1 - MARGIN)
  if v < 0:
    up, dn = dn, up
  return z3.And(z3.RealVal(dn) >= lo, z3.RealVal(up) <= hi)


def par_key(out):
  p = out.par
  return (out.window, p.n_test, float(p.sig_level), float(p.power_level),
          float(p.flevel), float(p.min_corr), float(p.rho_max))


def ref_par(ctx, out):
  """Concrete parameter object for reference diagnostics (only the fields
  the diagnostics read)."""
  p = out.par
  return ctx.M['par'].TBRMMDesignParameters(
      n_test=p.n_test, iroas=1.0, sig_level=p.sig_level,
      power_level=p.power_level, flevel=p.flevel, min_corr=p.min_corr,
      rho_max=p.rho_max)


def constraint_terms(ctx, out, T, C, admitted, mode):
  """z3 formulas for 'design (T,C) satisfies the numeric constraints'.

  mode 'loose': true if satisfied under at least one share reading, with the
  don't-care margin outwards (what a returned design must satisfy);
  mode 'strict': satisfied under both readings by at least the margin (what a
  design must satisfy for the search to be obliged to consider it).
  Integer-valued bounds are exact in both modes.  Returns dict name->formula.
  """
  p, sv = out.par, out.sv
  rng = _loose if mode == 'loose' else _strict
  terms = {}
  nT, nC = len(T), len(C)
  # sizes
  def size_term(n, val, key):
    if key in sv:
      a, b = sv[key]
      return z3.And(a <= n, n <= b)
    if val is None:
      return None
    return z3.BoolVal(val[0] <= n <= val[1])
  t = size_term(nT, p.treatment_geos_range, 'tsize')
  if t is not None:
    terms['treatment_size'] = t
  t = size_term(nC, p.control_geos_range, 'csize')
  if t is not None:
    terms['control_size'] = t
  # geo-count ratio: exact, on the float the code itself forms (nC / nT)
  if 'gratio' in sv or p.geo_ratio_tolerance is not None:
    tol = sv['gratio'] if 'gratio' in sv else F(p.geo_ratio_tolerance)
    r = F(nC / nT)
    terms['geo_ratio'] = z3.And(r * (1 + tol) >= 1, r <= 1 + tol)
  sT = sum(Fraction(ctx.share[g]) for g in T)
  sC = sum(Fraction(ctx.share[g]) for g in C)
  if 'vol' in sv or p.volume_ratio_tolerance is not None:
    tol = sv['vol'] if 'vol' in sv else F(p.volume_ratio_tolerance)
    r = sC / sT
    up, dn = r * (1 + MARGIN), r * (1 - MARGIN)
    if mode == 'loose':
      terms['volume_ratio'] = z3.And(z3.RealVal(up) * (1 + tol) >= 1,
                                     z3.RealVal(dn) <= 1 + tol)
    else:
      terms['volume_ratio'] = z3.And(z3.RealVal(dn) * (1 + tol) >= 1,
                                     z3.RealVal(up) <= 1 + tol)
  if 'share' in sv or p.treatment_share_range is not None:
    lo, hi = sv['share'] if 'share' in sv else tuple(
        F(v) for v in p.treatment_share_range)
    sA = sum(Fraction(ctx.share[g]) for g in admitted)
    r1 = rng(sT, lo, hi)
    r2 = rng(sT / sA, lo, hi) if sA else r1
    terms['treatment_share'] = z3.Or(r1, r2) if mode == 'loose' else z3.And(
        r1, r2)
  if 'budget' in sv or p.budget_range is not None:
    lo, hi = sv['budget'] if 'budget' in sv else tuple(
        F(v) for v in p.budget_range)
    ri = ctx.fresh_diag(T, C, par_key(out), ref_par(ctx, out))[
        'required_impact']
    if ri != ri or ri in (float('inf'), float('-inf')):
      terms['budget'] = z3.BoolVal(mode == 'loose')   # NaN budget: don't-care
    else:
      with np.errstate(all='ignore'):
        b = ri / float(p.iroas) if float(p.iroas) != 0 else float('inf')
      if b == float('inf'):
        terms['budget'] = z3.BoolVal(False)
      else:
        terms['budget'] = rng(b, lo, hi)
  return terms


def conj(terms):
  vals = list(terms.values())
  return z3.And(*vals) if vals else z3.BoolVal(True)


def eligibility_sets(rows):
  """(assignable, must_include, treat_ok, ctrl_ok) from concrete rows."""
  tab = {g: r for g, r in rows.items() if r is not None}
  assignable = {g for g, r in tab.items() if r != (0, 0, 1)}
  must = {g for g, r in tab.items() if r[2] == 0}
  return assignable, must


def describe_sym(sym):
  return [SYM_DOC[s] for s in sym]


def model_params(model, out):
  """Concrete parameter values (floats / ints) of a z3 model for replay."""
  vals = {}
  for name, v in out.sv.items():
    if isinstance(v, tuple):
      vals[name] = [float(symx.model_value(model, x)) if not x.is_int() else
                    int(symx.model_value(model, x)) for x in v]
    else:
      vals[name] = (int(symx.model_value(model, v)) if v.is_int() else float(
          symx.model_value(model, v)))
  return vals


def apply_concrete(conc, vals):
  """Merges replayed symbolic values into constructor keyword arguments."""
  kw = dict(conc or {})
  m = dict(share='treatment_share_range', budget='budget_range',
           vol='volume_ratio_tolerance', gratio='geo_ratio_tolerance',
           tsize='treatment_geos_range', csize='control_geos_range',
           ngm='n_geos_max', k='n_designs', npm='n_pretest_max')
  for name, v in vals.items():
    kw[m[name]] = tuple(v) if isinstance(v, list) else v
  return kw
