"""Listed family of concrete response panels (family S)."""
import numpy as np
import pandas as pd


def _frame(series, start='2020-03-01', ids=None):
  rows = []
  n_days = len(series[0])
  dates = pd.date_range(start, periods=n_days)
  for g, s in enumerate(series):
    gid = g if ids is None else ids[g]
    for d, v in zip(dates, s):
      rows.append(dict(date=d, geo=gid, sales=float(v)))
  return pd.DataFrame(rows)


def _trend(n_geos, n_days, seed, scale=None, noise=3.0):
  rng = np.random.default_rng(seed)
  base = rng.normal(size=n_days).cumsum()
  out = []
  for g in range(n_geos):
    k = (g + 1) if scale is None else scale[g]
    out.append(100.0 * k + k * 10.0 * base + noise * rng.normal(size=n_days))
  return out


def panel(name, seed=0):
  """Returns (DataFrame, n_test). Every panel has >= n_test + 3 dates in the
  default analysis window and non-constant series (C09's precondition)."""
  if name == 'P1':     # 3 geos, 24 dates, common trend
    return _frame(_trend(3, 24, 0)), 7
  if name == 'P2':     # 4 geos, one dominant (share > 0.5)
    return _frame(_trend(4, 24, 1, scale=[1, 2, 3, 9])), 7
  if name == 'P3':     # 4 geos, two with exactly tied means
    s = _trend(4, 24, 2, scale=[1, 2, 2, 3], noise=2.0)
    s[2] = s[2] - s[2].mean() + s[1].mean()
    return _frame(s), 7
  if name == 'P4':     # 3 geos, one negatively correlated
    s = _trend(3, 24, 3)
    s[1] = 2 * s[1].mean() - s[1]
    return _frame(s), 7
  if name == 'P5':     # 2 geos
    return _frame(_trend(2, 24, 4)), 7
  if name == 'P6':     # 1 geo
    return _frame(_trend(1, 24, 5)), 7
  if name == 'P7':     # 4 geos, 16 dates
    return _frame(_trend(4, 16, 6)), 4
  if name == 'P8':     # seeded 4 geos
    return _frame(_trend(4, 24, 1000 + seed, noise=6.0)), 7
  if name == 'P9':     # seeded 3 geos, noisy (tests fail -> score ties)
    return _frame(_trend(3, 20, 2000 + seed, noise=25.0)), 5
  if name == 'P10':    # 5 geos
    return _frame(_trend(5, 24, 7)), 7
  if name == 'P11':    # 4 geos of comparable size (subset sums interleave)
    return _frame(_trend(4, 24, 8, scale=[3.0, 2.8, 2.7, 1.5])), 7
  if name == 'P12':    # multi-digit integer ids; two geos with exactly tied
    s = _trend(4, 24, 9, scale=[1.0, 2.0, 2.0, 3.0], noise=2.0)   # means
    s[2] = s[1][::-1].copy()
    return _frame(s, ids=[2, 7, 10, 33]), 7
  if name == 'P13':    # P1 plus a second row for one (geo, date) cell
    df, nt = panel('P1')
    extra = df.iloc[[30]].copy()
    extra['sales'] = extra['sales'] + 40.0
    return pd.concat([df, extra], ignore_index=True), nt
  raise KeyError(name)


ALL = ['P1', 'P2', 'P3', 'P4', 'P5', 'P6', 'P7', 'P8', 'P9', 'P10', 'P11', 'P12']
