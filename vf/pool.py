"""Process pool with hard wall-clock limits (nlsat may ignore z3 timeouts)."""
import importlib
import multiprocessing as mp
import os
import time
import traceback


def _worker(conn, module, func, kwargs):
  try:
    import warnings
    warnings.filterwarnings('ignore')
    mod = importlib.import_module(module)
    res = getattr(mod, func)(**kwargs)
    conn.send(('ok', res))
  except BaseException as e:  # pylint: disable=broad-except
    conn.send(('error', '%s: %s\n%s' % (type(e).__name__, e,
                                        traceback.format_exc()[-3000:])))
  finally:
    conn.close()


def run_jobs(jobs, nproc=None, timeout_s=600, progress=None):
  """jobs: list of dict(module, func, kwargs, [timeout_s], [name]).

  Returns a list of (job, status, payload) with status in ok/error/timeout.
  """
  nproc = nproc or int(os.environ.get('VERIF_NPROC', '0')) or min(
      16, os.cpu_count() or 4)
  ctx = mp.get_context('fork')
  pending = sorted(enumerate(jobs), key=lambda ij: ij[1].get('weight', 0))
  # heaviest first (popped from the end)
  running = {}
  out = [None] * len(jobs)
  done = 0
  while pending or running:
    while pending and len(running) < nproc:
      i, job = pending.pop()
      a, b = ctx.Pipe(duplex=False)
      p = ctx.Process(target=_worker, args=(b, job['module'], job['func'],
                                            job.get('kwargs', {})))
      p.daemon = True
      p.start()
      b.close()
      running[i] = (p, a, time.time(), job)
    time.sleep(0.02)
    for i in list(running):
      p, a, t0, job = running[i]
      lim = job.get('timeout_s', timeout_s)
      if a.poll():
        try:
          status, payload = a.recv()
        except EOFError:
          status, payload = 'error', 'worker died'
        p.join(5)
        if p.is_alive():
          p.kill()
        out[i] = (job, status, payload, time.time() - t0)
      elif not p.is_alive():
        out[i] = (job, 'error', 'worker exited with code %s' % p.exitcode,
                  time.time() - t0)
      elif time.time() - t0 > lim:
        p.kill()
        p.join(5)
        out[i] = (job, 'timeout', 'wall-clock limit %ss' % lim,
                  time.time() - t0)
      else:
        continue
      a.close()
      del running[i]
      done += 1
      if progress:
        progress(done, len(jobs), out[i])
  return out
