"""Solver-based verification harnesses for google/matched_markets."""
