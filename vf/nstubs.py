"""Contract stubs for the C kernels used by tbr.py / tbr_iroas.py /
tbrmmdiagnostics.py (family N).  Every stub is installed by assigning a module
attribute of the repo module under analysis; nothing in /repo is edited.

Purification: quantile / cdf "functions" are fresh real variables memoised on
their syntactic argument (no uninterpreted functions inside NRA); roots are
the engine's memoised sqrt variables; OLS `scale` is a definitional variable.
"""
import fractions

import numpy as np
import pandas as pd
import z3

from vf import symx
from vf.symx import F, SNum, eng

Fraction = fractions.Fraction


def L(v):
  return v.e if isinstance(v, SNum) else F(v)


def _store():
  e = eng()
  if not hasattr(e, 'nmemo') or e.nmemo_path is not e.pc:
    e.nmemo = {}
    e.ndefs = []          # (variable, defining term)
    e.ncalls = []         # recorded stub calls (name, args, result var)
    e.nmemo_path = e.pc
  return e


def pvar(name, *args, lo=None, hi=None):
  """Fresh real variable memoised on (name, syntactic args)."""
  e = _store()
  k = (name,) + tuple(str(z3.simplify(a)) if z3.is_expr(a) else str(a)
                      for a in args)
  if k not in e.nmemo:
    v = z3.Real('%s_%d' % (name, len(e.nmemo)))
    e.nmemo[k] = v
    e.ncalls.append((name, args, v))
    if lo is not None:
      e._add(v > F(lo))
    if hi is not None:
      e._add(v < F(hi))
  return e.nmemo[k]


def defvar(name, term):
  """Definitional variable: a fresh variable standing for `term`; the
  defining equation is kept aside and added only to queries that need it."""
  e = _store()
  key = ('def', name, term.get_id())
  if key not in e.nmemo:
    v = z3.Real('%s_%d' % (name, len(e.nmemo)))
    e.nmemo[key] = v
    e.ndefs.append((v, term))
  return e.nmemo[key]


def definitions():
  e = _store()
  return [v == t for v, t in e.ndefs]


def radicand(sq):
  """Radicand of a memoised sqrt variable (SNum or z3 const)."""
  t = sq.e if isinstance(sq, SNum) else sq
  return eng().sqrt_rad[t.get_id()][1]


def sqrt_vars(term):
  e = eng()
  ids = {v[0].get_id(): v[0] for v in e.sqrt_rad.values()}
  return [v for v in z3.z3util.get_vars(term) if v.get_id() in ids]


def _arr(v):
  return np.asarray(v, dtype=object)


# ---------------------------------------------------------------------------
# statsmodels OLS
# ---------------------------------------------------------------------------
class OLSFit:
  """Contract of sm.OLS(y, X).fit() for a 2-column design [const, x]."""

  def __init__(self, yv, X, cut_scale=True):
    yv, X = _arr(yv), _arr(X)
    n = len(yv)
    col = X[:, 1]
    const_col = all(not isinstance(v, SNum) for v in col) and len(
        set(float(v) for v in col)) == 1
    self.nobs = n
    if const_col:
      # rank-deficient design (e.g. all-zero pre-period cost): statsmodels
      # uses the pseudo-inverse: minimum-norm solution, df_resid = n - rank
      c = Fraction(float(col[0]))
      vv = np.array([Fraction(1), c], dtype=object)
      nv = 1 + c * c
      ybar = yv.sum() / n
      self.params = np.array([vv[0] * ybar / nv, vv[1] * ybar / nv],
                             dtype=object)
      inv = np.array([[vv[i] * vv[j] / (n * nv * nv) for j in range(2)]
                      for i in range(2)], dtype=object)
      self.df_resid = n - 1
    elif all(not isinstance(v, SNum) and float(v) == 1.0 for v in X[:, 0]):
      # full-rank simple regression on [1, x]: textbook closed form (the same
      # function as (X'X)^-1 X'y; cheaper for the solver than a 2x2 inverse)
      x = col
      xb, yb = x.sum() / n, yv.sum() / n
      sxx = ((x - xb) * (x - xb)).sum()
      sxy = ((x - xb) * (yv - yb)).sum()
      syy = ((yv - yb) * (yv - yb)).sum()
      if isinstance(sxx, SNum):
        eng().assume((sxx != 0).e)
      b = sxy / sxx
      a = yb - b * xb
      self.params = np.array([a, b], dtype=object)
      sx2 = (x * x).sum()
      inv = np.array([[sx2 / (n * sxx), -xb / sxx], [-xb / sxx, 1 / sxx]],
                     dtype=object)
      self.df_resid = n - 2
      self._rss = syy - sxy * sxy / sxx
    else:
      XtX = X.T @ X
      Xty = X.T @ yv
      det = XtX[0, 0] * XtX[1, 1] - XtX[0, 1] * XtX[1, 0]
      if isinstance(det, SNum):
        eng().assume((det != 0).e)     # full rank
      inv = np.array([[XtX[1, 1] / det, -XtX[0, 1] / det],
                      [-XtX[1, 0] / det, XtX[0, 0] / det]], dtype=object)
      self.params = inv @ Xty
      self.df_resid = n - 2
    r = yv - X @ self.params
    sc = (r @ r) / self.df_resid
    if getattr(self, '_rss', None) is not None:
      sc = self._rss / self.df_resid
    self.scale_term = sc
    if cut_scale and isinstance(sc, SNum):
      sc = SNum(defvar('olsscale', sc.e))
    self.scale = sc
    self.resid = r
    self._inv = inv
    self._cov = inv * self.scale

  def cov_params(self):
    return self._cov

  def predict(self, X):
    v = _arr(X) @ self.params
    if isinstance(X, pd.DataFrame):
      return pd.Series(v, index=X.index)
    return v


class _OLS:
  def __init__(self, y, X):
    self.y, self.X = y, X

  def fit(self):
    return OLSFit(self.y, self.X)


class SM:
  OLS = _OLS


# ---------------------------------------------------------------------------
# scipy.stats t / F
# ---------------------------------------------------------------------------
def tq(p, df):
  """Purified t quantile with instantiated axioms; for a concrete level the
  real scipy value (lifted exactly)."""
  if not isinstance(p, SNum):
    import scipy.stats as _ss
    pf = float(p)
    if pf == 0.5:
      return z3.RealVal(0)
    return F(float(_ss.t.ppf(pf, df)))
  pe = z3.simplify(L(p))
  v = pvar('tq', pe, int(df))
  e = eng()
  if z3.is_rational_value(pe):
    fr = symx.frac_of(pe)
    if fr == Fraction(1, 2):
      e._add(v == 0)
    elif fr > Fraction(1, 2):
      e._add(v > 0)
    else:
      e._add(v < 0)
  return v


def tq_axioms():
  """Symmetry and monotonicity instances between all quantile variables of
  the current path."""
  e = _store()
  qs = [(args[0], args[1], v) for name, args, v in e.ncalls if name == 'tq']
  ax = []
  for i, (p1, d1, v1) in enumerate(qs):
    ax.append(z3.Implies(p1 == F(0.5), v1 == 0))
    ax.append(z3.Implies(p1 > F(0.5), v1 > 0))
    ax.append(z3.Implies(p1 < F(0.5), v1 < 0))
    for p2, d2, v2 in qs[i + 1:]:
      if d1 != d2:
        continue
      ax.append(z3.Implies(p1 + p2 == 1, v1 == -v2))
      ax.append(z3.Implies(p1 < p2, v1 < v2))
      ax.append(z3.Implies(p1 > p2, v1 > v2))
      ax.append(z3.Implies(p1 == p2, v1 == v2))
  return ax


class TDist:
  """Frozen t distribution: ppf / cdf / mean / rvs by contract."""

  def __init__(self, df, loc=0, scale=1):
    self.df = df
    self.kwds = dict(loc=loc, scale=scale)
    self.args = (df,)

  def mean(self):
    # scipy: the mean of a t distribution exists only for df > 1
    if self.df > 1:
      return self.kwds['loc']
    return np.full(np.shape(self.kwds['loc']), np.inf) if np.ndim(
        self.kwds['loc']) else np.inf

  def median(self):
    return self.kwds['loc']

  def ppf(self, q):
    if isinstance(q, float) and q == 1.0:
      # upper end of a one-sided interval: +inf for every positive scale
      sc = self.kwds['scale']
      return np.full(np.shape(sc), np.inf) if np.ndim(sc) else np.inf
    return self.kwds['loc'] + self.kwds['scale'] * SNum(tq(q, self.df))

  def cdf(self, v):
    z = (v - self.kwds['loc']) / self.kwds['scale']
    out = []
    for zz in _arr(z).ravel():
      ze = z3.simplify(L(zz))
      c = pvar('tcdf', ze, int(self.df), lo=0, hi=1)
      _store().ncalls.append(('tcdf_arg', (ze, int(self.df)), c))
      out.append(SNum(c))
    if np.ndim(z) == 0:
      return out[0]
    return np.array(out, dtype=object).reshape(np.shape(z))

  def rvs(self, nsims, random_state=None):
    key = ('fresh%d' % id(object())) if random_state is None else random_state
    zs = [SNum(pvar('z', int(self.df), nsims, key, j)) for j in range(nsims)]
    return self.kwds['loc'] + self.kwds['scale'] * np.array(zs, dtype=object)


class _StatsT:
  def __call__(self, df, loc=0, scale=1):
    return TDist(df, loc, scale)

  @staticmethod
  def ppf(p, df):
    return SNum(tq(p, df))

  @staticmethod
  def cdf(v, df):
    return TDist(df).cdf(v)


class _FDist:
  def __init__(self, dfn, dfd):
    self.dfn, self.dfd = dfn, dfd

  def ppf(self, p):
    return SNum(pvar('fq', z3.simplify(L(p)), int(self.dfn), int(self.dfd),
                     lo=0))


def linregress(x, y):
  x, y = _arr(x), _arr(y)
  n = len(x)
  xb, yb = x.sum() / n, y.sum() / n
  sxx = ((x - xb) * (x - xb)).sum()
  sxy = ((x - xb) * (y - yb)).sum()
  if isinstance(sxx, SNum):
    eng().assume((sxx != 0).e)
  elif sxx == 0:
    raise ValueError('Cannot calculate a linear regression if all x values '
                     'are identical')
  b = sxy / sxx
  a = yb - b * xb
  return (b, a, None, None, None)


class Stats:
  t = _StatsT()

  @staticmethod
  def f(dfn, dfd):
    return _FDist(dfn, dfd)

  linregress = staticmethod(linregress)


class SP:
  stats = Stats


def corrcoef(x, y):
  """Implicitly defined Pearson correlation: c^2 Sxx Syy = Sxy^2, sign(c) =
  sign(Sxy); Sxx, Syy > 0 (positive variance domain)."""
  x, y = _arr(x), _arr(y)
  n = len(x)
  xb, yb = x.sum() / n, y.sum() / n
  sxx = ((x - xb) * (x - xb)).sum()
  syy = ((y - yb) * (y - yb)).sum()
  sxy = ((x - xb) * (y - yb)).sum()
  e = eng()
  for v in (sxx, syy):
    if isinstance(v, SNum):
      e.assume((v > 0).e)
    elif not v > 0:
      raise symx.PathAbort('constant series: outside the domain')
  c = pvar('corr', L(sxx), L(syy), L(sxy))
  e._add(z3.And(c >= -1, c <= 1, c * c * L(sxx) * L(syy) == L(sxy) * L(sxy),
                z3.Or(z3.And(c >= 0, L(sxy) >= 0), z3.And(c <= 0,
                                                          L(sxy) <= 0))))
  cs = SNum(c)
  return np.array([[1.0, cs], [cs, 1.0]], dtype=object)


def np_namespace(**extra):
  ns = type('NP', (), dict(vars(np)))
  ns.corrcoef = staticmethod(corrcoef)
  ns.isnan = staticmethod(lambda v: False if isinstance(v, SNum) else (
      np.array([False if isinstance(q, SNum) else q != q for q in _arr(
          v).ravel()]).reshape(np.shape(v)) if symx.has_sym(v) else np.isnan(
              v)))

  def _median(v):
    vs = list(_arr(v).ravel())
    if not any(isinstance(q, SNum) for q in vs):
      return np.median(np.asarray(vs, dtype=float))
    r = pvar('median', *[L(q) for q in vs])
    _store().ncalls.append(('order_stat', ('median', None, [L(q) for q in
                                                            vs]), r))
    return SNum(r)

  def _percentile(v, q):
    vs = list(_arr(v).ravel())
    if not any(isinstance(x, SNum) for x in vs) and not isinstance(q, SNum):
      return np.percentile(np.asarray(vs, dtype=float), q)
    r = pvar('pct', L(q), *[L(x) for x in vs])
    _store().ncalls.append(('order_stat', ('pct', L(q), [L(x) for x in vs]),
                            r))
    return SNum(r)

  def _mean(v, *a, **k):
    if symx.has_sym(_arr(v)):
      vs = _arr(v)
      return vs.sum() / vs.size
    return np.mean(v, *a, **k)
  ns.median = staticmethod(_median)
  ns.percentile = staticmethod(_percentile)
  ns.mean = staticmethod(_mean)
  for k, v in extra.items():
    setattr(ns, k, v)
  return ns


class _Order:
  """float_order(x) < k  <=>  |x| < 10^k  (x symbolic)."""

  def __init__(self, x):
    self.x = x

  def __lt__(self, k):
    return abs(self.x) < Fraction(10) ** int(k)


def float_order_stub(orig):
  def f(x):
    if isinstance(x, SNum):
      return _Order(x)
    return orig(x)
  return f


# ---------------------------------------------------------------------------
# proving with / without the root constraints
# ---------------------------------------------------------------------------
import os as _os
CROSSCHECK = dict(on=_os.environ.get('VERIF_TIER') == 'thorough' or bool(
    _os.environ.get('VERIF_CROSSCHECK')), budget=12)


def cvc5_verdict(smt2, tlimit_ms=10000):
  """Second opinion on a final query (cvc5 1.4 wheel, Python API): returns
  'unsat', 'sat', 'unknown' or 'error'."""
  try:
    import cvc5
    slv = cvc5.Solver()
    slv.setOption('tlimit-per', str(tlimit_ms))
    slv.setLogic('QF_NIRA')
    par = cvc5.InputParser(slv)
    par.setStringInput(cvc5.InputLanguage.SMT_LIB_2_6, smt2, 'q')
    sm = par.getSymbolManager()
    out = 'unknown'
    while True:
      cmd = par.nextCommand()
      if cmd.isNull():
        break
      r = str(cmd.invoke(slv, sm)).strip()
      if r in ('sat', 'unsat', 'unknown'):
        out = r
    return out
  except Exception:  # pylint: disable=broad-except
    return 'error'


def prove(eng_, prop, extra=(), drop_sqrt=False, timeout_ms=60000,
          with_defs=False):
  """pc /\\ extra /\\ not prop.  drop_sqrt removes the r>=0 /\\ r*r==rad
  constraints (sound: fewer assumptions) so that identities that do not need
  them stay out of nonlinear root reasoning."""
  if isinstance(prop, symx.SBool):
    prop = prop.e
  if isinstance(prop, (bool, np.bool_)):
    prop = z3.BoolVal(bool(prop))
  s = z3.Solver()
  s.set('timeout', timeout_ms)
  for c in eng_.pc:
    if drop_sqrt and c.get_id() in eng_.sqrt_def_ids:
      continue      # dropping an assumption is always sound for a proof
    s.add(c)
  for c in extra:
    s.add(c)
  if with_defs:
    for v, t in getattr(eng_, 'ndefs', []):
      s.add(v == t)
  s.add(z3.Not(prop))
  import time
  t0 = time.time()
  r = s.check()
  eng_.stats['final_queries'] += 1
  eng_.stats['solver_calls'] += 1
  eng_.stats['solver_s'] += time.time() - t0
  if r == z3.unsat:
    eng_.stats['final_unsat'] += 1
    if CROSSCHECK['on'] and CROSSCHECK['budget'] > 0:
      CROSSCHECK['budget'] -= 1
      v = cvc5_verdict(s.to_smt2())
      eng_.stats['cvc5_' + v] = eng_.stats.get('cvc5_' + v, 0) + 1
      if v == 'sat':
        # the second solver disagrees with z3's unsat: do not trust it
        eng_.stats['final_unsat'] -= 1
        eng_.stats['final_unknown'] += 1
        return 'unknown', None
    return 'unsat', None
  if r == z3.sat:
    eng_.stats['final_sat'] += 1
    return 'sat', s.model()
  eng_.stats['final_unknown'] += 1
  return 'unknown', None
