"""C14: results ordered best-first and capped; the bounded queue keeps the
top k."""
from vf import crosshair_run
from vf import searchjob

PID = 'C14'
HAS_TWIN = True
JOB_TIMEOUT = dict(quick=900, thorough=3000)

META = dict(
    engine='crosshair + symx',
    technique='CrossHair (z3-backed symbolic execution) on the real HeapDict '
    'with symbolic int items / capacity / keys / read points, incl. an '
    'inductive push step from an arbitrary heap-ordered queue; symx concolic '
    'execution of both real searches with n_designs symbolic',
    explanation='Container: CrossHair explores the real heapdict.py with '
    'symbolic integer items, symbolic capacity, symbolic keys and symbolic '
    'read points and confirms over all paths: result = k largest pushed, '
    'descending, per key; reads (also interleaved with pushes) change '
    'nothing; the returned dict is a copy; items defining only __lt__; and '
    'the inductive step (arbitrary heap-ordered queue of length <= k, one '
    'push -> heap order kept, multiset = top-k), which with top-k(H+x) = '
    'top-k(top-k(H)+x) covers push sequences of any length. Search part: '
    'both real searches with n_designs and constraints symbolic; on every '
    'path len(result) <= n_designs and scores non-increasing; a second '
    'search on the same object (also after n_designs was lowered on the '
    'parameter object) is capped and ordered too.',
    bounds=dict(
        quick='3-4 symbolic pushes (5 in thorough), capacity 0..5, two keys, '
        '3 symbolic read points, inductive step k <= 4 (unbounded ints); '
        'searches: P1/P2, n_designs 1..4 symbolic alone and with one '
        'constraint, 4 eligibility tables',
        thorough='5 pushes, searches on P3 P7 P8 P11 too'),
    outside='push sequences longer than 5 are covered only through the '
    'inductive step + the top-k composition lemma (not mechanised); items '
    'whose order is not total (NaN scores)',
    stubs=['pandas.core.nanops._ensure_numeric pass-through (search part)'],
    assumptions=['CrossHair\'s model of Python ints/lists/heapq (heapq runs '
                 'as pure Python under CrossHair)',
                 'floats modelled as exact reals (search part)'],
)

CONDS = dict(
    quick=['topk3', 'topk4', 'reads_interleaved', 'two_keys',
           'result_is_a_copy', 'step', 'lt_only_items'],
    thorough=['topk3', 'topk4', 'topk5', 'reads_interleaved', 'two_keys',
              'result_is_a_copy', 'step', 'lt_only_items'])

ELIGS = {'P1': [None, {'0': 'ctx', '1': 'c', '2': 'ctx'},
                {'0': 't', '1': 'ctx', '2': 'ctx'}],
         'P2': [None, {'0': 'c', '1': 'ctx', '2': 'ctx', '3': 'tx'}]}


def jobs(tier, seed):
  out = []
  for c in CONDS[tier]:
    out.append(dict(func='ch', name='ch-' + c, weight=100, kwargs=dict(
        name='ch-' + c, target='vf.ch.c14.' + c,
        timeout_s=600 if tier == 'quick' else 1500), timeout_s=3400))
  for m in ['exhaustive', 'greedy']:
    for panel in (['P1', 'P2'] if tier == 'quick' else ['P1', 'P2', 'P3',
                                                         'P7', 'P8', 'P11']):
      for i, el in enumerate(ELIGS.get(panel, [None])):
        for sym in (['k'], ['k', 'tsize'], ['k', 'vol'], ['k', 'share']):
          if panel != 'P1' and len(sym) > 1 and (tier == 'quick' or sym[1] in (
              'share', 'vol')):
            continue   # 4-geo panels: n_designs alone / with a size range
          for h in (None, 'second', 'second_k', 'second_k_empty'):
            name = 's-%s-%s-%s-e%d%s' % (panel, m, '+'.join(sym), i,
                                         '-' + h if h else '')
            out.append(dict(func='job', name=name, kwargs=dict(
                name=name, panel=panel, method=m, sym=sym, elig=el,
                history=h, seed=seed)))
  out.append(dict(func='job', name='twin', kwargs=dict(
      name='twin', panel='P1', method='exhaustive', sym=['k'], elig=None,
      twin=True)))
  return out


def ch(**kw):
  return crosshair_run.ch_job(**kw)


def job(**kw):
  return searchjob.search_job(PID, oracles=['capped_sorted'], **kw)


def replay(case):
  if case.get('kind') == 'crosshair':
    return crosshair_run.replay_call(case, PID)
  return searchjob.replay_search(case, PID)
