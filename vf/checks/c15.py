"""C15: the canonical data object faithfully represents the input panel."""
import itertools
import random

import numpy as np
import pandas as pd
import z3

from vf import framework
from vf import panels
from vf import search
from vf import symx
from vf.symx import SNum, eng

PID = 'C15'
HAS_TWIN = True
JOB_TIMEOUT = dict(quick=900, thorough=3000)

META = dict(
    explanation='The real TBRMMData.__init__, geo_index setter and '
    'aggregate_* run through the real pandas on a long-format frame whose '
    'response cells are z3 Reals (object dtype), with a solver-chosen '
    'presence pattern (missing cells), int or str IDs and permuted rows. '
    'Each path is one ordering of the symbolic geo means; the solver proves '
    'on the whole path region: one row per geo with string ID, chronological '
    'columns, rows by non-increasing mean, every cell = the input cell or 0 '
    'when missing, share x sum of means = mean, and for a solver-chosen '
    'geo_index order the aggregates over every index subset equal the sums '
    'of the corresponding rows / shares. Eligibility reconciliation: '
    'eligibility cells are z3 Ints over tables that are a subset of / equal '
    'to / exceed the geos in the data: dropped when excludable, ValueError '
    'otherwise, assignable = eligible minus must-exclude.',
    bounds=dict(
        quick='3 geos x 2 dates and 2 geos x 3 dates of symbolic cells, up '
        'to 2 missing cells, 2 ID dtypes, 2 row orders, all geo_index orders '
        'of all subsets; eligibility: 3 data geos, tables over 2 present + '
        '0..2 absent geos, all 7^k row combinations',
        thorough='3 x 3 cells, up to 3 missing cells; 4 data geos in the '
        'eligibility part'),
    outside='more than 3 geos / 3 dates of symbolic cells; duplicated '
    '(geo, date) rows; non-positive responses (cells are assumed > 0 so that '
    'the sum of means is non-zero)',
    stubs=['pandas.core.nanops._ensure_numeric pass-through'],
    assumptions=['object-dtype pandas paths compute the same function as the '
                 'float64 paths up to rounding (conformance run + replay)',
                 'floats modelled as exact reals'],
)

DATES = [pd.Timestamp('2020-01-30'), pd.Timestamp('2020-01-31'),
         pd.Timestamp('2020-02-01')]


def _ids(n, dtype):
  base = [7, 10, 2][:n]
  return base if dtype == 'int' else ['b%d' % i for i in base]


def build_frame(n, d, dtype, cells, missing, shuffle):
  rows = []
  ids = _ids(n, dtype)
  for gi in range(n):
    for di in range(d):
      if (gi, di) in missing:
        continue
      rows.append(dict(geo=ids[gi], date=DATES[di], sales=cells[gi, di]))
  if shuffle:
    rnd = random.Random(shuffle)
    rnd.shuffle(rows)
  return pd.DataFrame(rows), [str(i) for i in ids]


def check_data(data, n, d, sids, cells, missing, order, as_z3=True):
  """Returns (list of (name, formula|bool))."""
  obs = []
  idx = list(data.df.index)
  obs.append(('one-row-per-geo-string-id', sorted(idx) == sorted(sids) and all(
      isinstance(g, str) for g in idx)))
  obs.append(('columns-chronological', list(data.df.columns) == DATES[:d]))
  if sorted(idx) != sorted(sids) or list(data.df.columns) != DATES[:d]:
    return obs
  def cell(g, di):
    gi = sids.index(g)
    return 0 if (gi, di) in missing else cells[gi, di]
  means = {g: sum(cell(g, di) for di in range(d)) / d for g in sids}
  tot = sum(means.values())
  def eq(a, b):
    r = (a == b)
    return r.e if isinstance(r, symx.SBool) else bool(r)
  def ge(a, b):
    r = (a >= b)
    return r.e if isinstance(r, symx.SBool) else bool(r)
  for i in range(len(idx) - 1):
    obs.append(('rows-by-decreasing-mean', ge(means[idx[i]], means[idx[i + 1]])))
  for g in idx:
    for di in range(d):
      obs.append(('cell', eq(data.df.loc[g].iloc[di], cell(g, di))))
    obs.append(('share', eq(data.geo_share[g] * tot, means[g])))
  obs.append(('geos_in_data', data.geos_in_data == set(sids)))
  if order is not None:
    data.geo_index = order
    for r in range(1, len(order) + 1):
      for S in itertools.combinations(range(len(order)), r):
        ts = data.aggregate_time_series(set(S))
        for di in range(d):
          obs.append(('aggregate-series', eq(ts[di], sum(cell(order[i], di)
                                                          for i in S))))
        obs.append(('aggregate-share', eq(data.aggregate_geo_share(set(S)) *
                                          tot, sum(means[order[i]] for i in
                                                   S))))
  return obs


def _prove_all(js, eng_, obs, twin, case_fn):
  for name, f in obs:
    js.r['obligations'] += 1
    if twin:
      f = False
    if isinstance(f, (bool, np.bool_)):
      verdict, model = ('unsat', None) if f else ('sat', eng_.witness())
    else:
      verdict, model = eng_.prove(f)
    if verdict == 'unsat':
      js.r['discharged'] += 1
    elif verdict == 'unknown' or model is None:
      js.r['inconclusive'].append('solver unknown on %s' % name)
    elif len(js.r['violations']) < 20:
      js.r['violations'].append(dict(case=case_fn(model), twin=twin,
                                     detail=name))


def cells_job(name, n, d, dtype, shuffle, max_missing, twin=False,
              max_s=800):
  symx.patch_pandas()
  from matched_markets.methodology.tbrmmdata import TBRMMData
  js = framework.JobStats(name)
  trace = symx.FunctionTrace(framework.REPO)
  e = symx.Engine()

  def fn():
    cells = {}
    for gi in range(n):
      for di in range(d):
        cells[gi, di] = symx.real('r_%d_%d' % (gi, di), 0, 64)
    missing = set()
    for gi in range(n):
      for di in range(d):
        if len(missing) < max_missing and (gi + di) % 2 == 1:
          if symx.flag('miss_%d_%d' % (gi, di)):
            missing.add((gi, di))
    # every geo and every date keeps at least one cell
    for gi in range(n):
      if all((gi, di) in missing for di in range(d)):
        raise symx.PathAbort('geo without rows')
    for di in range(d):
      if all((gi, di) in missing for gi in range(n)):
        raise symx.PathAbort('date without rows')
    df, sids = build_frame(n, d, dtype, cells, missing, shuffle)
    before = df.copy()
    data = TBRMMData(df, 'sales')
    # solver-chosen ordered subset for geo_index
    k = symx.choose('k', 1, n)
    pool = list(sids)
    order = []
    for j in range(k):
      order.append(pool.pop(symx.choose('pick%d' % j, 0, len(pool) - 1)))
    obs = check_data(data, n, d, sids, cells, missing, order)
    obs.append(('input-frame-unchanged', list(df.columns) == list(
        before.columns) and len(df) == len(before)))
    return obs, cells, sorted(missing), order

  def on_path(eng_, res):
    if res[0] == 'exc':
      js.r['inconclusive'].append('exception on a path: %r' % (res[1],))
      return
    obs, cells, missing, order = res[1]
    js.r['nontrivial'] += 1

    def case_fn(model):
      vals = {'%d,%d' % k: float(symx.model_value(model, v)) for k, v in
              cells.items()}
      return dict(kind='cells', n=n, d=d, dtype=dtype, shuffle=shuffle,
                  cells=vals, missing=[list(m) for m in missing], order=order)
    _prove_all(js, eng_, obs, twin, case_fn)
    if len(js.r['samples']) < 2:
      w = eng_.witness()
      js.r['samples'].append(case_fn(w) if w is not None else dict(
          missing=missing))

  trace.start()
  status = e.explore(fn, on_path, max_s=max_s)
  return js.finish(e, status, trace)


# ---- eligibility reconciliation -------------------------------------------
def elig_job(name, panel, present, n_absent, twin=False, max_s=800,
             first_row=None):
  """present: list of data geo ids that have a row in the table."""
  symx.patch_pandas()
  ctx = search.Ctx(panel)
  M = ctx.M
  js = framework.JobStats(name)
  trace = symx.FunctionTrace(framework.REPO)
  e = symx.Engine()
  absent = ['zz%d' % i for i in range(n_absent)]
  table_geos = list(present) + absent

  def fn():
    cells = {}
    for i, g in enumerate(table_geos):
      c = symx.integer('e_%s_c' % g, 0, 1)
      t = symx.integer('e_%s_t' % g, 0, 1)
      x = symx.integer('e_%s_x' % g, 0, 1)
      eng().assume(c.e + t.e + x.e >= 1)
      if i == 0 and first_row is not None:
        eng().assume(z3.And(c.e == first_row[0], t.e == first_row[1],
                            x.e == first_row[2]))
      cells[g] = (c, t, x)
    tab = pd.DataFrame(dict(geo=table_geos,
                            control=[cells[g][0] for g in table_geos],
                            treatment=[cells[g][1] for g in table_geos],
                            exclude=[cells[g][2] for g in table_geos]))
    ge = M['ge'].GeoEligibility(tab)
    try:
      data = M['data'].TBRMMData(ctx.df.copy(), 'sales', ge)
      outcome = 'accepted'
    except ValueError:
      data, outcome = None, 'ValueError'
    rows = {g: tuple(int(eng().concretize(v.e)) for v in cells[g])
            for g in table_geos}
    must_reject = any(rows[g][2] == 0 for g in absent)
    bad = []
    if (outcome == 'ValueError') != must_reject:
      bad.append('%s although %s' % (outcome, 'an absent geo cannot be '
                                     'excluded' if must_reject else
                                     'every absent geo may be excluded'))
    if data is not None and not must_reject:
      want_assign = {g for g in present if rows[g] != (0, 0, 1)}
      if set(data.assignable) != want_assign:
        bad.append('assignable %s, expected %s' % (sorted(data.assignable),
                                                   sorted(want_assign)))
      if sorted(data.geo_eligibility.data.index) != sorted(present):
        bad.append('eligibility rows kept: %s' % sorted(
            data.geo_eligibility.data.index))
      for g in present:
        got = tuple(int(v) for v in data.geo_eligibility.data.loc[g])
        if got != rows[g]:
          bad.append('row of %s changed to %s' % (g, got))
    return rows, bad

  def on_path(eng_, res):
    js.r['obligations'] += 1
    js.r['nontrivial'] += 1
    if res[0] == 'exc':
      rows, bad = None, ['exception other than ValueError: %r' % (res[1],)]
      w = eng_.witness()
      if w is not None:
        rows = {g: tuple(int(symx.model_value(w, z3.Int('e_%s_%s' % (g, c))))
                         for c in 'ctx') for g in table_geos}
    else:
      rows, bad = res[1]
    if twin:
      bad = ['twin']
    if not bad:
      js.r['discharged'] += 1
    elif len(js.r['violations']) < 30:
      js.r['violations'].append(dict(case=dict(
          kind='elig', panel=panel, rows=rows), twin=twin, detail=bad[:2]))
    if len(js.r['samples']) < 2:
      js.r['samples'].append(dict(table=rows, mismatches=bad[:1]))

  trace.start()
  status = e.explore(fn, on_path, max_s=max_s)
  return js.finish(e, status, trace)


def conformance_job(name):
  """Concrete floats through object dtype vs plain float64 (no symx)."""
  from matched_markets.methodology.tbrmmdata import TBRMMData
  js = framework.JobStats(name)
  rng = np.random.default_rng(3)
  n_ok = 0
  for trial in range(6):
    n, d = 3, 3
    cells = {(g, t): float(np.round(rng.uniform(1, 50), 3)) for g in range(n)
             for t in range(d)}
    missing = {(1, 2)} if trial % 2 else set()
    df, sids = build_frame(n, d, 'int' if trial % 3 else 'str', cells, missing,
                           trial)
    a = TBRMMData(df, 'sales')
    dfo = df.copy()
    dfo['sales'] = dfo['sales'].astype(object)
    symx.patch_pandas()
    b = TBRMMData(dfo, 'sales')
    js.r['obligations'] += 1
    same = list(a.df.index) == list(b.df.index) and np.allclose(
        a.df.to_numpy().astype(float), b.df.to_numpy().astype(float)) and (
            np.allclose(a.geo_share.to_numpy().astype(float),
                        b.geo_share.to_numpy().astype(float)))
    order = list(reversed(sids))
    obs = check_data(a, n, d, sids, cells, missing, order)
    hard = [nm for nm, f in obs if nm not in ('share', 'aggregate-share', 'cell',
                                              'aggregate-series') and not f]
    ok = same and not hard and not _share_recheck(a, n, d, sids, cells,
                                                  missing, order)
    if ok:
      js.r['discharged'] += 1
      n_ok += 1
    else:
      js.r['inconclusive'].append('conformance mismatch on trial %d' % trial)
  js.r['conformance'] = n_ok
  js.r['paths'] = 6
  js.r['forks'] = 1
  js.r['nontrivial'] = 1
  js.r['exhaustive'] = True
  js.r['samples'] = [dict(kind='conformance', trials=6)]
  return js.r


def _tol(f):
  return f if isinstance(f, (bool, np.bool_)) else bool(f)


def jobs(tier, seed):
  out = []
  shapes = [(3, 2), (2, 3)] if tier == 'quick' else [(3, 2), (2, 3), (3, 3)]
  for n, d in shapes:
    for dtype in ('int', 'str'):
      for sh in (0, 5 + seed):
        mm = 2 if tier == 'quick' else 3
        if (n, d) == (3, 3):
          mm = 1
        name = 'cells-%dx%d-%s-shuffle%d' % (n, d, dtype, sh)
        out.append(dict(func='cells_job', name=name, weight=n * d, kwargs=dict(
            name=name, n=n, d=d, dtype=dtype, shuffle=sh, max_missing=mm,
            max_s=800 if tier == 'quick' else 3000),
                        timeout_s=900 if tier == 'quick' else 3300))
  rt = list(search.ROW_TYPES.values())
  for present in (['0', '1', '2'], ['0', '2'], ['1']):
    for na in (0, 1, 2):
      if len(present) + na > 4:
        continue
      for r0 in rt:
        name = 'elig-%s+%dabsent-%s' % (''.join(present), na, ''.join(map(
            str, r0)))
        out.append(dict(func='elig_job', name=name, kwargs=dict(
            name=name, panel='P1', present=present, n_absent=na,
            first_row=r0)))
  if tier == 'thorough':
    for r0 in rt:
      name = 'elig-P2-0123+1absent-%s' % ''.join(map(str, r0))
      out.append(dict(func='elig_job', name=name, weight=30, kwargs=dict(
          name=name, panel='P2', present=['0', '1', '2', '3'], n_absent=1,
          first_row=r0, max_s=3000), timeout_s=3300))
  out.append(dict(func='conformance_job', name='conformance', kwargs=dict(
      name='conformance')))
  out.append(dict(func='elig_job', name='twin', kwargs=dict(
      name='twin', panel='P1', present=['0'], n_absent=0, twin=True)))
  return out


def replay(case):
  from matched_markets.methodology.tbrmmdata import TBRMMData
  M = search._imports()
  if case['kind'] == 'cells':
    n, d = case['n'], case['d']
    cells = {tuple(int(v) for v in k.split(',')): float(v) for k, v in case[
        'cells'].items()}
    missing = {tuple(m) for m in case['missing']}
    df, sids = build_frame(n, d, case['dtype'], cells, missing,
                           case['shuffle'])
    try:
      data = TBRMMData(df, 'sales')
      obs = check_data(data, n, d, sids, cells, missing, case['order'])
    except Exception as e:  # pylint: disable=broad-except
      return dict(violates=True, key='C15:cells:%s' % type(e).__name__,
                  detail=repr(e))
    failed = []
    for name, f in obs:
      if isinstance(f, (bool, np.bool_)):
        ok = bool(f)
      else:
        ok = z3.is_true(z3.simplify(f))
      if not ok:
        failed.append(name)
    # exact float comparison is too strict for shares: recheck with tolerance
    failed = [f for f in failed if f not in ('share', 'aggregate-share')] + (
        _share_recheck(data, n, d, sids, cells, missing, case['order']))
    if not failed:
      return dict(violates=False, detail='all clauses hold concretely')
    return dict(violates=True, key='C15:cells:%s' % failed[0],
                detail='failed clauses %s on cells %s missing %s' % (
                    sorted(set(failed)), cells, sorted(missing)))
  if case['kind'] == 'elig':
    ctx = search.Ctx(case['panel'])
    rows = case['rows']
    if rows is None:
      return dict(violates=False, detail='no table')
    gs = list(rows)
    tab = pd.DataFrame(dict(geo=gs, control=[rows[g][0] for g in gs],
                            treatment=[rows[g][1] for g in gs],
                            exclude=[rows[g][2] for g in gs]))
    present = [g for g in gs if g in ctx.ids]
    absent = [g for g in gs if g not in ctx.ids]
    must_reject = any(rows[g][2] == 0 for g in absent)
    try:
      data = M['data'].TBRMMData(ctx.df.copy(), 'sales', M['ge'].GeoEligibility(
          tab))
      outcome = 'accepted'
    except ValueError:
      outcome, data = 'ValueError', None
    except Exception as e:  # pylint: disable=broad-except
      return dict(violates=True, key='C15:elig:%s' % type(e).__name__,
                  detail='table %s: %r' % (rows, e))
    if (outcome == 'ValueError') != must_reject:
      return dict(violates=True, key='C15:elig:%s' % outcome,
                  detail='table %s: %s' % (rows, outcome))
    if data is not None:
      want = {g for g in present if tuple(rows[g]) != (0, 0, 1)}
      if set(data.assignable) != want:
        return dict(violates=True, key='C15:elig:assignable',
                    detail='table %s: assignable %s expected %s' % (
                        rows, sorted(data.assignable), sorted(want)))
    return dict(violates=False, detail='as documented')
  return dict(violates=False, detail='unknown case')


def _share_recheck(data, n, d, sids, cells, missing, order):
  def cell(g, di):
    gi = sids.index(g)
    return 0.0 if (gi, di) in missing else cells[gi, di]
  means = {g: sum(cell(g, di) for di in range(d)) / d for g in sids}
  tot = sum(means.values())
  bad = []
  for g in sids:
    if abs(float(data.geo_share[g]) - means[g] / tot) > 1e-9:
      bad.append('share')
  if order:
    for r in range(1, len(order) + 1):
      for S in itertools.combinations(range(len(order)), r):
        if abs(float(data.aggregate_geo_share(set(S))) - sum(
            means[order[i]] for i in S) / tot) > 1e-9:
          bad.append('aggregate-share')
  return bad
