"""C06: the TBR posterior of the cumulative effect equals the closed-form
model."""
import fractions

import numpy as np
import pandas as pd
import z3

from vf import framework
from vf import nstubs
from vf import symx
from vf.symx import F, SNum, eng

Fraction = fractions.Fraction
PID = 'C06'
HAS_TWIN = True
JOB_TIMEOUT = dict(quick=900, thorough=3000)

META = dict(
    explanation='The real tbr.TBR.fit / causal_effect / '
    'causal_cumulative_distribution / summary and the real '
    'TBRMMDiagnostics.tbrfit run through the real pandas / numpy on an '
    'experiment frame whose response cells, level, threshold and rescale '
    'factor are z3 Reals; sm.OLS, the t distribution and linregress are '
    'contract stubs (purified quantile / cdf variables, definitional OLS '
    'scale). For every analysed day z3 (QF_NRA) proves: df = n_pre - 2, loc '
    '= rescale x cumulative (observed - OLS counterfactual), scale^2 = '
    'rescale^2 sigma^2 (t + t^2 (1/n + (xbar_t - xbar)^2 / Sxx)) (Kerman '
    'eq. 5, written independently); a second frame with the same per-date '
    'group totals but split over more geos, an unassigned geo, unassigned-'
    'period rows and shuffled rows gives identical loc and scale^2; summary '
    'rows: lower <= estimate <= upper, precision = estimate - lower, the '
    'argument of the probability\'s cdf is (threshold - loc) / scale; the '
    'design-side tbrfit gives the identical estimate and half-width.',
    bounds=dict(
        quick='(n_pre, n_test, cooldown days) in {(3,1,0), (3,2,0), (4,1,1), '
        '(4,2,1), (5,3,0)}; tails in {1,2}; report all/last; 1 geo per group '
        'vs split layout (2 geos per group, unassigned geo, unassigned-'
        'period rows, shuffled)',
        thorough='adds (5,2,2), (6,2,2), (6,3,1), (5,3,1) (4 analysed days; '
        'measured: at n_pre >= 8, and at n_pre = 6 with 5 days, z3 answers '
        'unknown at 120 s on the design-side geometry lemma)'),
    outside='n_pre > 6, more than 4 analysed days, more than 2 geos per '
    'group; the numerical accuracy of statsmodels / scipy; tails=1 with '
    'level < 1/2 (lower is by definition above the median there)',
    stubs=['sm.OLS (2x2 closed form, df_resid = n-2, cov = scale (X\'X)^-1, '
           'predict returns a Series on a DataFrame)',
           'sp.stats.t frozen distribution (ppf = loc + scale tq, cdf = '
           'purified variable per standardised argument, mean = loc)',
           'stats.linregress (slope Sxy/Sxx), stats.t.ppf',
           'pandas.core.nanops._ensure_numeric pass-through'],
    assumptions=['floats modelled as exact reals',
                 't quantile axioms used: symmetry, monotonicity, sign',
                 'stubs validated against the real libraries in the '
                 'conformance job of every run'],
)


def frame(cells, n, T, C, layout, shuffle_seed=3):
  rows = []
  dates = pd.date_range('2020-01-01', periods=n + T + C)
  for d in range(n + T + C):
    per = 0 if d < n else (1 if d < n + T else 2)
    if layout == 'A':
      rows.append(dict(date=dates[d], geo=1, group=1, period=per,
                       response=cells['x', d]))
      rows.append(dict(date=dates[d], geo=2, group=2, period=per,
                       response=cells['y', d]))
    else:
      w = cells['w', d]
      rows.append(dict(date=dates[d], geo=5, group=-1, period=per,
                       response=cells['u', d]))
      rows.append(dict(date=dates[d], geo=2, group=2, period=per,
                       response=cells['y', d] - w))
      rows.append(dict(date=dates[d], geo=1, group=1, period=per,
                       response=cells['x', d] - cells['v', d]))
      rows.append(dict(date=dates[d], geo=4, group=1, period=per,
                       response=cells['v', d]))
      rows.append(dict(date=dates[d], geo=3, group=2, period=per, response=w))
  df = pd.DataFrame(rows)
  if layout == 'B':
    extra = [dict(date=pd.Timestamp('2019-12-0%d' % (i + 1)), geo=g, group=g,
                  period=-1, response=cells['z', 2 * i + g - 1])
             for i in range(2) for g in (1, 2)]
    df = pd.concat([df, pd.DataFrame(extra)])
    df = df.sample(frac=1.0, random_state=shuffle_seed).reset_index(drop=True)
  return df


def _sum(v):
  return sum(v[1:], v[0])


def closed_form(cells, n, days):
  """Independent closed form per analysed day t=1..days: (loc, scale^2 /
  sigma^2 factor, sigma^2 term)."""
  x = [cells['x', d] for d in range(n)]
  y = [cells['y', d] for d in range(n)]
  xb, yb = _sum(x) / n, _sum(y) / n
  sxx = _sum([(a - xb) * (a - xb) for a in x])
  sxy = _sum([(a - xb) * (b - yb) for a, b in zip(x, y)])
  syy = _sum([(b - yb) * (b - yb) for b in y])
  b = sxy / sxx
  a = yb - b * xb
  rss = syy - sxy * sxy / sxx
  sig2 = rss / (n - 2)
  out = []
  cum = 0
  for t in range(1, days + 1):
    d = n + t - 1
    cum = cum + (cells['y', d] - (a + b * cells['x', d]))
    mt = _sum([cells['x', n + j] for j in range(t)]) / t
    factor = t + t * t * (Fraction(1, n) + (mt - xb) * (mt - xb) / sxx)
    out.append((cum, factor))
  return out, sig2, (a, b, xb, yb, sxx)


def shape_job(name, n, T, C, tails, report, twin=False, max_s=800):
  symx.patch_pandas()
  from matched_markets.methodology import tbr as TBRmod
  from matched_markets.methodology import tbrmmdiagnostics as DG
  from matched_markets.methodology.tbrmmdesignparameters import TBRMMDesignParameters
  js = framework.JobStats(name)
  trace = symx.FunctionTrace(framework.REPO)
  e = symx.Engine()
  days = T + C
  saved = (TBRmod.sm, TBRmod.sp, DG.stats, DG.np)

  def fn():
    keys = 'xywuv'
    cells = {(k, d): symx.real('%s%d' % (k, d)) for k in keys
             for d in range(n + days)}
    for i in range(4):
      cells['z', i] = symx.real('z%d' % i)
    level = symx.real('level', 0, 1)
    if tails == 1:
      eng().assume(level.e >= F(0.5))
    thr = symx.real('thr')
    resc = symx.real('rescale', 0, None)
    TBRmod.sm, TBRmod.sp = nstubs.SM, nstubs.SP
    DG.stats = nstubs.Stats
    DG.np = nstubs.np_namespace()
    out = {}
    try:
      for lay in 'AB':
        m = TBRmod.TBR(use_cooldown=bool(C))
        m.fit(frame(cells, n, T, C, lay), 'response')
        dist = m.causal_cumulative_distribution(rescale=resc)
        summ = m.summary(level=level, threshold=thr, tails=tails,
                         report=report, rescale=resc)
        out[lay] = (dist, summ, m)
      # design-side fit on the same pre-period data
      par = TBRMMDesignParameters(n_test=days, iroas=1.0)
      sig = symx.real('sig', 0, 1)
      par.sig_level = sig
      dg = DG.TBRMMDiagnostics([cells['y', d] for d in range(n)], par)
      dg.x = [cells['x', d] for d in range(n)]
      xt = _sum([cells['x', n + j] for j in range(days)]) / days
      yt = _sum([cells['y', n + j] for j in range(days)]) / days
      fit = dg.tbrfit(xt, yt)
      m = out['A'][2]
      s1 = m.summary(level=sig, tails=1, report='last')
    finally:
      TBRmod.sm, TBRmod.sp, DG.stats, DG.np = saved
    return dict(out=out, cells=cells, level=level, thr=thr, resc=resc, fit=fit,
                s1=s1, sig=sig)

  def on_path(eng_, res):
    if res[0] == 'exc':
      js.r['inconclusive'].append('exception on the path: %r' % (res[1],))
      return
    o = res[1]
    js.r['nontrivial'] += 1
    cells, level, thr, resc = o['cells'], o['level'], o['thr'], o['resc']
    distA, sumA, mA = o['out']['A']
    distB, sumB, mB = o['out']['B']
    cf, sig2, (a, b, xb, yb, sxx) = closed_form(cells, n, days)
    sg = mA.pre_period_model.scale          # definitional variable
    sgB = mB.pre_period_model.scale
    # lemma: both layouts' OLS scale terms are the same polynomial
    obs = []
    obs.append(('df = n_pre - 2', distA.df == n - 2 and distB.df == n - 2,
                {}))
    # sigma^2 (definitional variable) = rss / (n - 2)
    obs.append(('OLS scale = rss/(n-2)', mA.pre_period_model.scale_term.e ==
                nstubs.L(sig2), dict(drop_sqrt=True)))
    obs.append(('layout: OLS scale equal', mA.pre_period_model.scale_term.e ==
                mB.pre_period_model.scale_term.e, dict(drop_sqrt=True)))
    kA, kB = distA.kwds, distB.kwds
    for t in range(days):
      loc, factor = cf[t]
      obs.append(('day %d loc' % (t + 1), kA['loc'][t].e == (resc * loc).e,
                  dict(drop_sqrt=True)))
      radA = nstubs.radicand(kA['scale'][t] / resc) if False else None
      scA = kA['scale'][t].e      # rescale * sqrt(var)
      sq = nstubs.sqrt_vars(scA)
      ok_struct = len(sq) == 1
      obs.append(('day %d scale structure' % (t + 1), ok_struct, {}))
      if ok_struct:
        obs.append(('day %d scale = rescale*sqrt' % (t + 1),
                    scA == resc.e * sq[0], dict(drop_sqrt=True)))
        rad = nstubs.radicand(sq[0])
        obs.append(('day %d scale^2 = Kerman eq5' % (t + 1),
                    rad == (sg * factor).e, dict(drop_sqrt=True)))
        sqB = nstubs.sqrt_vars(kB['scale'][t].e)
        if len(sqB) == 1:
          obs.append(('day %d layout: scale^2 equal' % (t + 1),
                      nstubs.radicand(sqB[0]) == rad, dict(
                          drop_sqrt=True, extra=[sg.e == sgB.e])))
        else:
          obs.append(('day %d layout: scale structure' % (t + 1), False, {}))
      obs.append(('day %d layout: loc equal' % (t + 1), kA['loc'][t].e == kB[
          'loc'][t].e, dict(drop_sqrt=True)))
    # summary rows
    ax = nstubs.tq_axioms()
    nrows = days if report == 'all' else 1
    obs.append(('summary rows', len(sumA) == nrows, {}))
    for i in range(min(nrows, len(sumA))):
      row = sumA.iloc[i]
      t = days - nrows + i
      sc = row['scale']
      pos = [sc.e >= 0]
      est, lo, up, prec = row['estimate'], row['lower'], row['upper'], row[
          'precision']
      obs.append(('row %d estimate = loc' % t, est.e == kA['loc'][t].e, dict(
          drop_sqrt=True)))
      obs.append(('row %d scale column' % t, sc.e == kA['scale'][t].e, dict(
          drop_sqrt=True)))
      up_ok = (up.e >= est.e) if isinstance(up, SNum) else bool(up >= 1e300)
      obs.append(('row %d lower<=estimate<=upper' % t, z3.And(
          lo.e <= est.e, up_ok), dict(extra=ax + pos)))
      obs.append(('row %d precision = estimate-lower' % t, prec.e == est.e -
                  lo.e, dict(extra=ax + pos)))
      if tails == 1:
        obs.append(('row %d upper = inf' % t, not isinstance(up, SNum) and
                    up == np.inf, {}))
      else:
        obs.append(('row %d interval symmetric' % t, up.e - est.e == est.e -
                    lo.e, dict(extra=ax)))
      # lower = loc + scale * tq((1-level)/tails)
      alpha = z3.simplify(((1 - level) / tails).e)
      tql = [v for nm, args, v in eng_.ncalls if nm == 'tq' and z3.simplify(
          args[0]).eq(alpha) and args[1] == n - 2]
      obs.append(('row %d lower quantile level' % t, bool(tql) and z3.simplify(
          lo.e - (kA['loc'][t].e + kA['scale'][t].e * tql[0])).eq(
              z3.RealVal(0)) if tql else False, {}))
      # probability = 1 - Tcdf((thr - loc)/scale)
      want_z = (thr.e - kA['loc'][t].e) / kA['scale'][t].e
      prob = row['probability']
      zs = [(args[0], v) for nm, args, v in eng_.ncalls if nm == 'tcdf_arg']
      mine = [zz for zz, v in zs if z3.simplify(prob.e - (1 - v)).eq(
          z3.RealVal(0))]
      obs.append(('row %d probability is 1 - cdf' % t, bool(mine), {}))
      if mine:
        obs.append(('row %d probability argument = (thr-loc)/scale' % t,
                    mine[0] == want_z, dict(drop_sqrt=False, nz=kA['scale'][
                        t].e)))
      obs.append(('row %d level/threshold columns' % t, z3.And(
          row['level'].e == level.e, row['posterior_threshold'].e == thr.e),
                  dict(drop_sqrt=True)))
    # layout independence of the summary
    for col in ('estimate', 'lower'):
      for i in range(min(len(sumA), len(sumB))):
        pass
    # design-side fit: same estimate and half-width
    fit, s1, sig = o['fit'], o['s1'].iloc[-1], o['sig']
    loc_last = closed_form(cells, n, days)[0][-1][0]
    obs.append(('tbrfit estimate = TBR estimate', fit.estimate.e ==
                nstubs.L(loc_last), dict(drop_sqrt=True)))
    obs.append(('TBR(level=sig,tails=1) estimate', s1['estimate'].e ==
                nstubs.L(loc_last), dict(drop_sqrt=True)))
    # half-widths: cihw = tq_sig * scale_design ; TBR: estimate - lower =
    # -tq(1-sig) * scale_TBR ; compare squares of the scales
    sq_d = nstubs.sqrt_vars(fit.scale.e)
    sq_sigma = nstubs.sqrt_vars(fit.sigma.e)
    s1sc = s1['scale']
    sq_t = nstubs.sqrt_vars(s1sc.e)
    ok = len(sq_t) == 1 and len(sq_d) >= 1 and len(sq_sigma) == 1 and z3.simplify(
        fit.sigma.e - sq_sigma[0]).eq(z3.RealVal(0))
    obs.append(('tbrfit scale structure', ok, {}))
    if ok:
      # (i) sigma lemma: radicand of np.std(resid, ddof=2) = rss/(n-2)
      obs.append(('tbrfit sigma^2 = rss/(n-2)', nstubs.radicand(sq_sigma[0]) ==
                  nstubs.L(sig2), dict(drop_sqrt=True)))
      # (ii) geometry, sigma^2 cut to the definitional variable
      prod = sg.e
      for v in sq_d:
        if not v.eq(sq_sigma[0]):
          prod = prod * nstubs.radicand(v)
      lead = z3.simplify(z3.substitute(fit.scale.e, *[(v, z3.RealVal(1))
                                                      for v in sq_d]))
      # the design-side code forms the float 1 / n_test, which is not the
      # rational 1/n_test unless n_test is a power of two: equal up to 1e-12
      lhs, rhs = lead * lead * prod, nstubs.radicand(sq_t[0])
      eps = F(Fraction(1, 10**12))
      exact = (days & (days - 1)) == 0
      obs.append(('tbrfit scale^2 = TBR scale^2 (sigma^2 cut)', (
          lhs == rhs) if exact else z3.And(lhs <= rhs * (1 + eps), lhs >=
                                           rhs * (1 - eps)),
                  dict(drop_sqrt=True, extra=[sg.e > 0, rhs > 0])))
      tq_sig = [v for nm, args, v in eng_.ncalls if nm == 'tq' and z3.simplify(
          args[0]).eq(z3.simplify(sig.e)) and args[1] == n - 2]
      obs.append(('tbrfit cihw = tq(sig) * scale', bool(tq_sig) and z3.simplify(
          fit.cihw.e - tq_sig[0] * fit.scale.e).eq(z3.RealVal(0)), {}))
    if twin:
      obs = [('twin', False, {})]
    for nm, f, opt in obs:
      js.r['obligations'] += 1
      if isinstance(f, (bool, np.bool_)):
        verdict, model = ('unsat', None) if f else ('sat', eng_.witness(
            timeout_ms=20000))
      else:
        extra = list(opt.get('extra', ()))
        if opt.get('nz') is not None:
          extra.append(opt['nz'] != 0)
        verdict, model = nstubs.prove(
            eng_, f, extra=extra, drop_sqrt=opt.get('drop_sqrt', False),
            with_defs=opt.get('with_defs', False), timeout_ms=120000)
      import os, time as _t
      if os.environ.get('VERIF_DEBUG'):
        print('  %-50s %s %.1fs' % (nm, verdict, eng_.stats['solver_s']),
              flush=True)
      if verdict == 'unsat':
        js.r['discharged'] += 1
        continue
      if verdict == 'unknown':
        js.r['inconclusive'].append('solver unknown on "%s"' % nm)
        continue
      case = dict(kind='tbr', n=n, T=T, C=C, tails=tails, report=report)
      if model is not None:
        vals = {}
        for k, v in cells.items():
          try:
            vals['%s,%s' % k] = float(symx.model_value(model, v))
          except Exception:  # pylint: disable=broad-except
            vals['%s,%s' % k] = 1.0
        case.update(cells=vals, level=float(symx.model_value(model, level)),
                    thr=float(symx.model_value(model, thr)), rescale=float(
                        symx.model_value(model, resc)), sig=float(
                            symx.model_value(model, o['sig'])))
      if len(js.r['violations']) < 12:
        js.r['violations'].append(dict(case=case, twin=twin, detail=nm))
    if len(js.r['samples']) < 2:
      js.r['samples'].append(dict(shape=(n, T, C), tails=tails, report=report,
                                  obligations=[nm for nm, _, _ in obs][:40]))

  trace.start()
  status = e.explore(fn, on_path, max_s=max_s)
  return js.finish(e, status, trace)


# ---- concrete oracle (replay + conformance) --------------------------------
def concrete_check(n, T, C, tails, report, cells, level, thr, rescale, sig,
                   rtol=1e-6):
  """Real TBR / tbrfit (no stubs) against the closed form in plain numpy +
  scipy.  Returns list of failed clause names."""
  import scipy.stats as ss
  from matched_markets.methodology import tbr as TBRmod
  from matched_markets.methodology import tbrmmdiagnostics as DG
  from matched_markets.methodology.tbrmmdesignparameters import TBRMMDesignParameters
  days = T + C
  bad = []

  def close(a, b):
    a, b = float(a), float(b)
    if a != a or b != b:
      return a != a and b != b
    if abs(a) == float('inf') or abs(b) == float('inf'):
      return a == b
    return abs(a - b) <= rtol * max(1.0, abs(a), abs(b))
  cf, sig2, (a, b, xb, yb, sxx) = closed_form(cells, n, days)
  if not (sig2 > 0 and sxx > 0):
    return ['degenerate-input']
  res = {}
  for lay in 'AB':
    m = TBRmod.TBR(use_cooldown=bool(C))
    m.fit(frame(cells, n, T, C, lay), 'response')
    dist = m.causal_cumulative_distribution(rescale=rescale)
    summ = m.summary(level=level, threshold=thr, tails=tails, report=report,
                     rescale=rescale)
    res[lay] = (dist, summ)
    if dist.args[0] != n - 2:
      bad.append('df')
    for t in range(days):
      loc, factor = cf[t]
      if not close(dist.kwds['loc'][t], rescale * loc):
        bad.append('loc(layout %s)' % lay)
      if not close(dist.kwds['scale'][t] ** 2, rescale ** 2 * sig2 * factor):
        bad.append('scale(layout %s)' % lay)
    nrows = days if report == 'all' else 1
    if len(summ) != nrows:
      bad.append('rows')
      continue
    alpha = (1 - level) / tails
    for i in range(nrows):
      t = days - nrows + i
      row = summ.iloc[i]
      loc = rescale * cf[t][0]
      sc = rescale * (sig2 * cf[t][1]) ** 0.5
      d = ss.t(n - 2, loc=loc, scale=sc)
      if not close(row['estimate'], loc):
        bad.append('estimate')
      if not close(row['lower'], d.ppf(alpha)):
        bad.append('lower')
      up = np.inf if tails == 1 else d.ppf(1 - alpha)
      if not close(row['upper'], up):
        bad.append('upper')
      if not close(row['precision'], row['estimate'] - row['lower']):
        bad.append('precision')
      if not (row['lower'] <= row['estimate'] <= row['upper']) and (
          tails == 2 or level >= 0.5):
        bad.append('ordering')
      if not close(row['probability'], 1 - d.cdf(thr)):
        bad.append('probability')
      if not close(row['scale'], sc):
        bad.append('scale-column')
  par = TBRMMDesignParameters(n_test=days, iroas=1.0, sig_level=sig)
  dg = DG.TBRMMDiagnostics(np.array([cells['y', d] for d in range(n)]), par)
  dg.x = np.array([cells['x', d] for d in range(n)])
  xt = np.mean([cells['x', n + j] for j in range(days)])
  yt = np.mean([cells['y', n + j] for j in range(days)])
  fit = dg.tbrfit(xt, yt)
  loc = cf[-1][0]
  sc = (sig2 * cf[-1][1]) ** 0.5
  if not close(fit.estimate, loc):
    bad.append('tbrfit-estimate')
  if not close(fit.cihw, ss.t.ppf(sig, n - 2) * sc):
    bad.append('tbrfit-halfwidth')
  return sorted(set(bad))


def _random_cells(n, days, seed):
  rng = np.random.default_rng(seed)
  cells = {}
  for d in range(n + days):
    x = float(np.round(10 + 3 * rng.normal(), 3))
    cells['x', d] = x
    cells['y', d] = float(np.round(4 + 1.7 * x + rng.normal(), 3))
    cells['w', d] = float(np.round(rng.uniform(0, 3), 3))
    cells['u', d] = float(np.round(rng.uniform(0, 30), 3))
    cells['v', d] = float(np.round(rng.uniform(0, 3), 3))
  for i in range(4):
    cells['z', i] = float(np.round(rng.uniform(0, 30), 3))
  return cells


def conformance_job(name, seed=0):
  """(i) concrete oracle on random frames with the real libraries; (ii) the
  stubs in concrete mode (floats through the same stubs) against the real
  libraries."""
  js = framework.JobStats(name)
  from matched_markets.methodology import tbr as TBRmod
  k = 0
  for (n, T, C) in [(3, 1, 0), (4, 2, 1), (6, 3, 2), (10, 4, 0)]:
    for tails in (1, 2):
      for rep in ('all', 'last'):
        cells = _random_cells(n, T + C, seed + k)
        bad = concrete_check(n, T, C, tails, rep, cells, 0.8, 1.5, 0.25, 0.9)
        js.r['obligations'] += 1
        k += 1
        if not bad:
          js.r['discharged'] += 1
        else:
          js.r['violations'].append(dict(case=dict(
              kind='tbr', n=n, T=T, C=C, tails=tails, report=rep, cells={
                  '%s,%s' % kk: v for kk, v in cells.items()}, level=0.8,
              thr=1.5, rescale=0.25, sig=0.9), detail='conformance: %s' % bad))
  # stubs in concrete mode vs real libraries
  saved = (TBRmod.sm, TBRmod.sp)
  mism = 0
  e = symx.Engine()

  def fn():
    nonlocal mism
    import scipy.stats as ss
    for s in range(4):
      n, T, C = 4, 2, 1
      cells = _random_cells(n, T + C, 100 + s)
      vals = []
      for stub in (False, True):
        if stub:
          TBRmod.sm, TBRmod.sp = nstubs.SM, nstubs.SP
        try:
          m = TBRmod.TBR(use_cooldown=True)
          m.fit(frame(cells, n, T, C, 'B'), 'response')
          d = m.causal_cumulative_distribution(rescale=0.5)
          vals.append((np.asarray(d.kwds['loc'], dtype=float), np.asarray(
              [float(v) if not isinstance(v, SNum) else float(symx.frac_of(
                  z3.simplify(v.e))) for v in np.ravel(d.kwds['scale'])]) if
                       False else None, float(m.pre_period_model.scale if not
                                              isinstance(m.pre_period_model.scale, SNum) else 0),
                       np.asarray(m.pre_period_model.params, dtype=float)))
        finally:
          TBRmod.sm, TBRmod.sp = saved
      if not (np.allclose(vals[0][0], vals[1][0], rtol=1e-9) and np.allclose(
          vals[0][3], vals[1][3], rtol=1e-9) and abs(vals[0][2] - vals[1][
              2]) <= 1e-9 * abs(vals[0][2])):
        mism += 1
    return mism
  e.explore(fn, lambda en, r: None)
  js.r['obligations'] += 1
  if mism == 0:
    js.r['discharged'] += 1
  else:
    js.r['inconclusive'].append('OLS stub disagrees with statsmodels on %d '
                                'frames' % mism)
  js.r['conformance'] = k + 4
  js.r['paths'] = k
  js.r['forks'] = 1
  js.r['nontrivial'] = 1
  js.r['exhaustive'] = True
  js.r['samples'] = [dict(kind='conformance', frames=k)]
  return js.r


def jobs(tier, seed):
  out = []
  shapes = [(3, 1, 0), (3, 2, 0), (4, 1, 1), (4, 2, 1), (5, 3, 0)]
  if tier == 'thorough':
    shapes += [(5, 2, 2), (6, 2, 2), (6, 3, 1), (5, 3, 1)]
  for (n, T, C) in shapes:
    for tails in (1, 2):
      for rep in (('all', 'last') if (n, T, C) != (3, 1, 0) else ('last',)):
        name = 'n%d-T%d-C%d-tails%d-%s' % (n, T, C, tails, rep)
        out.append(dict(func='shape_job', name=name, weight=n * 10 + T + C,
                        kwargs=dict(name=name, n=n, T=T, C=C, tails=tails,
                                    report=rep, max_s=800 if tier == 'quick'
                                    else 3000),
                        timeout_s=900 if tier == 'quick' else 3300))
  out.append(dict(func='conformance_job', name='conformance', kwargs=dict(
      name='conformance', seed=seed)))
  out.append(dict(func='shape_job', name='twin', kwargs=dict(
      name='twin', n=3, T=1, C=0, tails=2, report='last', twin=True)))
  return out


def replay(case):
  if case.get('cells') is None:
    return dict(violates=False, detail='no concrete witness')
  cells = {tuple([k.split(',')[0], int(k.split(',')[1])]): float(v)
           for k, v in case['cells'].items()}
  try:
    bad = concrete_check(case['n'], case['T'], case['C'], case['tails'],
                         case['report'], cells, case['level'], case['thr'],
                         case['rescale'], case['sig'])
  except Exception as e:  # pylint: disable=broad-except
    return dict(violates=True, key='C06:exception:%s' % type(e).__name__,
                detail=repr(e))
  if bad == ['degenerate-input'] or not bad:
    return dict(violates=False, detail='real code agrees with the closed '
                'form (%s)' % (bad or 'ok'))
  return dict(violates=True, key='C06:' + bad[0], detail='clauses failing on '
              'the real code: %s' % bad)
