"""C17: design parameters are accepted exactly when in their documented
domain."""
import dataclasses
import itertools
import math

import z3

from vf import crosshair_run
from vf import framework
from vf import symx
from vf.symx import eng

PID = 'C17'
HAS_TWIN = True
JOB_TIMEOUT = dict(quick=900, thorough=3000)

META = dict(
    engine='symx + crosshair',
    technique='symx concolic execution of the real constructor with field '
    'values that subclass int/float and wrap z3 terms (integer-valued fields, '
    'pairs, mixed int/float pairs); CrossHair with IEEE float proxies (NaN, '
    '+-inf in the quantifier) for float fields and float pairs',
    explanation='The real TBRMMDesignParameters constructor is executed on '
    'symbolic field values. symx: every scalar field and every range field '
    'gets values that subclass int or float and wrap a z3 Int/Real confined '
    'to [-4, 12] (contains every documented bound); each path ends in '
    'accepted / ValueError / other exception and the solver proves '
    '"accepted <=> documented predicate" on the whole path region (open/'
    'closed ends, integrality, ordered pairs). CrossHair: float fields and '
    '(float, float) ranges with IEEE proxies, so NaN and +-inf are inside '
    'the quantifier; non-finite members of integer pairs / integer fields '
    'are rejected with ValueError. Listed concrete members (NaN, +-inf, '
    '+-1e308, 2^53+1, None, str, list-instead-of-tuple, wrong arity) are '
    'evaluated against the same predicate; defaults and field-wise equality '
    'are checked over solver-enumerated value combinations.',
    bounds=dict(
        quick='all 16 fields; scalar shapes int, float; pair shapes (int,'
        'int), (float,float), (int,float), (float,int); window [-4,12]; 24 '
        'special concrete members per field; __eq__ over 5 fields x 2-3 values, '
        'before and after one field of the second object is reassigned',
        thorough='same shapes with longer CrossHair budgets (900 s per '
        'condition)'),
    outside='finite values outside [-4, 12] are covered by CrossHair for '
    'float shapes only; equal endpoints of share / budget '
    'ranges are rejected (the constructor states lower < upper for them); '
    'bool values are don\'t-care (documentation silent)',
    stubs=['TBRMMDesignParameters._is_optional replaced, under CrossHair '
           'only, by a table precomputed from the real method (typing '
           'objects are not hashable by CrossHair proxies)'],
    assumptions=['symbolic values are finite reals/ints; comparisons against '
                 'literal float(\'inf\') fold per IEEE',
                 'CrossHair\'s float model (IEEE proxies) for NaN/inf'],
)

# documented domains -------------------------------------------------------
SCALARS = {
    # name: (lower, lower_closed, upper, upper_closed, integer, optional)
    'n_test': (1, True, None, False, True, False),
    'iroas': (0.0, True, None, False, False, False),
    'volume_ratio_tolerance': (0.0, False, None, False, False, True),
    'geo_ratio_tolerance': (0.0, False, None, False, False, True),
    'n_geos_max': (2, True, None, False, True, True),
    'n_pretest_max': (3, True, None, False, True, False),
    'n_designs': (1, True, None, False, True, False),
    'rho_max': (0.9, True, 1.0, False, False, False),
    'sig_level': (0.0, False, 1.0, False, False, False),
    'power_level': (0.0, False, 1.0, False, False, False),
    'min_corr': (0.8, True, 1.0, False, False, False),
    'flevel': (0.9, True, 1.0, False, False, False),
}
RANGES = {
    # name: (lower, lower_closed, upper, strict_order, integer)
    'treatment_share_range': (0.0, False, 1.0, True, False),
    'budget_range': (0.0, True, None, True, False),
    'treatment_geos_range': (1, True, None, False, True),
    'control_geos_range': (1, True, None, False, True),
}
DEFAULTS = dict(volume_ratio_tolerance=None, geo_ratio_tolerance=None,
                treatment_share_range=None, budget_range=None,
                treatment_geos_range=None, control_geos_range=None,
                n_geos_max=None, n_pretest_max=90, n_designs=1, sig_level=0.9,
                power_level=0.8, min_corr=0.8, rho_max=0.995, flevel=0.9)


def _P():
  from matched_markets.methodology import tbrmmdesignparameters as m
  return m.TBRMMDesignParameters


def _isint(t):
  return z3.BoolVal(True) if t.is_int() else z3.IsInt(t)


def scalar_pred(name, t):
  lo, lc, hi, hc, integer, _ = SCALARS[name]
  f = [t >= symx.F(lo) if lc else t > symx.F(lo)]
  if hi is not None:
    f.append(t <= symx.F(hi) if hc else t < symx.F(hi))
  if integer:
    f.append(_isint(t))
  return z3.And(*f)


def range_pred(name, a, b):
  lo, lc, hi, strict, integer = RANGES[name]
  f = [a >= symx.F(lo) if lc else a > symx.F(lo)]
  if hi is not None:
    f.append(b < symx.F(hi))
  f.append(a < b if strict else a <= b)
  if integer:
    f += [_isint(a), _isint(b)]
  return z3.And(*f)


def _mk(kind, name):
  if kind == 'int':
    v = symx.SInt(z3.Int(name))
  else:
    v = symx.SFloat(z3.Real(name))
  eng().assume(z3.And(v.e >= -4, v.e <= 12))
  return v


def field_job(name, field, shape, twin=False, max_s=600):
  """shape: 'int' | 'float' for scalars; 'ii','ff','if','fi' for ranges."""
  js = framework.JobStats(name)
  trace = symx.FunctionTrace(framework.REPO)
  e = symx.Engine()
  P = _P()

  def fn():
    base = dict(n_test=7, iroas=1.0)
    if field in SCALARS:
      v = _mk(shape, 'v')
      base[field] = v
      pred = scalar_pred(field, v.e)
      terms = [v.e]
    else:
      a = _mk('int' if shape[0] == 'i' else 'float', 'a')
      b = _mk('int' if shape[1] == 'i' else 'float', 'b')
      base[field] = (a, b)
      pred = range_pred(field, a.e, b.e)
      terms = [a.e, b.e]
      # equal endpoints of share / budget ranges: rejected (the constructor's
      # stated rule is 'lower bound must be < upper bound')
    try:
      P(**base)
      outcome = 'accepted'
    except ValueError:
      outcome = 'ValueError'
    return outcome, pred, terms

  def on_path(eng_, res):
    js.r['nontrivial'] += 1
    js.r['obligations'] += 1
    if res[0] == 'exc':
      # any other exception type escaping the constructor
      model = eng_.witness()
      vals = None
      js.r['violations'].append(dict(case=dict(
          kind='field', field=field, shape=shape, values=None,
          note='%s: %s' % (type(res[1]).__name__, res[1])), twin=twin,
                                     detail='constructor raised %r' % (
                                         res[1],)))
      return
    outcome, pred, terms = res[1]
    prop = pred if outcome == 'accepted' else z3.Not(pred)
    if twin:
      prop = z3.BoolVal(False)
    verdict, model = eng_.prove(prop)
    if verdict == 'unsat':
      js.r['discharged'] += 1
    elif verdict == 'unknown':
      js.r['inconclusive'].append('solver unknown')
    else:
      vals = [symx.model_value(model, t) for t in terms]
      vals = [int(v) if t.is_int() else float(v) for v, t in zip(vals, terms)]
      if len(js.r['violations']) < 20:
        js.r['violations'].append(dict(
            case=dict(kind='field', field=field, shape=shape, values=vals),
            twin=twin, detail='%s for %s=%s' % (outcome, field, vals)))
    if len(js.r['samples']) < 3:
      w = eng_.witness()
      js.r['samples'].append(dict(
          field=field, shape=shape, outcome=outcome, region_witness=[
              float(symx.model_value(w, t)) for t in terms] if w else None))

  trace.start()
  status = e.explore(fn, on_path, max_s=max_s)
  return js.finish(e, status, trace)


# concrete special members ---------------------------------------------------
NAN, INF = float('nan'), float('inf')
SPECIAL_SCALARS = [NAN, INF, -INF, 1e308, -1e308, float(2**53 + 1), 2**70,
                   -2**70, 5e-324, -0.0, None, 'x', '1', [1], (1,), (1, 2),
                   {}, 1 + 0j]
SPECIAL_RANGES = [None, NAN, 3, 'ab', (1,), (1, 2, 3), [1, 2], (1, '2'),
                  (None, 2), (NAN, 2), (1, NAN), (NAN, NAN), (INF, INF),
                  (-INF, 2), (1, INF), (1e308, 1e308), (2, 1), (0.5, 0.25),
                  ((1, 2), 3), (2**70, 2**71), (0.5, 2**70), (1.5, 2),
                  (1, 2.5), (2, 2.0000000000000004), (0, 1), (1.0, 2.0)]


def _concrete_scalar_ok(name, v):
  lo, lc, hi, hc, integer, optional = SCALARS[name]
  if v is None:
    return optional
  if isinstance(v, bool) or not isinstance(v, (int, float)):
    return False if not isinstance(v, bool) else None
  if v != v:
    return False
  ok = (v >= lo) if lc else (v > lo)
  if hi is not None:
    ok = ok and ((v <= hi) if hc else (v < hi))
  if integer:
    ok = ok and v not in (INF, -INF) and v == math.floor(v)
  return ok


def _concrete_range_ok(name, v):
  lo, lc, hi, strict, integer = RANGES[name]
  if v is None:
    return True
  if not (isinstance(v, tuple) and len(v) == 2 and all(
      isinstance(x, (int, float)) and not isinstance(x, bool) for x in v)):
    return False
  a, b = v
  if a != a or b != b:
    return False
  ok = (a >= lo) if lc else (a > lo)
  ok = ok and (b < (hi if hi is not None else INF))
  ok = ok and ((a < b) if strict else (a <= b))
  if integer:
    ok = ok and a == math.floor(a) and b == math.floor(b)
  return ok


def special_cases():
  out = []
  for f in SCALARS:
    for v in SPECIAL_SCALARS:
      out.append((f, v, _concrete_scalar_ok(f, v)))
  for f in RANGES:
    for v in SPECIAL_RANGES:
      out.append((f, v, _concrete_range_ok(f, v)))
  return out


def _try(P, kw):
  try:
    P(**kw)
    return 'accepted'
  except ValueError:
    return 'ValueError'
  except Exception as e:  # pylint: disable=broad-except
    return type(e).__name__


def special_job(name, twin=False):
  """Listed concrete members + defaults + __eq__ over enumerated values."""
  js = framework.JobStats(name)
  trace = symx.FunctionTrace(framework.REPO)
  P = _P()
  trace.start()
  for i, (f, v, want) in enumerate(special_cases()):
    if want is None:
      continue
    js.r['obligations'] += 1
    base = dict(n_test=7, iroas=1.0)
    base[f] = v
    got = _try(P, base)
    if got == ('accepted' if want else 'ValueError'):
      js.r['discharged'] += 1
    else:
      js.r['violations'].append(dict(case=dict(kind='special', index=i),
                                     detail='%s=%r -> %s' % (f, v, got)))
  # required fields missing / None
  for f in ('n_test', 'iroas'):
    js.r['obligations'] += 1
    base = dict(n_test=7, iroas=1.0)
    base[f] = None
    if _try(P, base) == 'ValueError':
      js.r['discharged'] += 1
    else:
      js.r['violations'].append(dict(case=dict(kind='required-none', field=f),
                                     detail='%s=None accepted' % f))
  # defaults
  js.r['obligations'] += 1
  p = P(n_test=7, iroas=1.0)
  bad = [k for k, v in DEFAULTS.items() if getattr(p, k) != v]
  if not bad:
    js.r['discharged'] += 1
  else:
    js.r['violations'].append(dict(case=dict(kind='defaults'),
                                   detail='defaults differ: %s' % bad))
  js.r['paths'] = js.r['obligations']
  js.r['forks'] = 1
  js.r['nontrivial'] = 1
  js.r['exhaustive'] = True
  js.r['samples'] = [dict(kind='special members', n=js.r['obligations'])]
  js.r['functions'] = trace.stop()
  return js.r


EQ_FIELDS = [('n_test', [1, 2.0]), ('iroas', [0.0, 1.5]),
             ('budget_range', [None, (1, 2), (1, 3)]),
             ('n_designs', [1, 3]), ('geo_ratio_tolerance', [None, 0.5])]


def eq_job(name, max_s=600):
  """__eq__ <=> field-wise equality, over solver-enumerated value indices."""
  js = framework.JobStats(name)
  trace = symx.FunctionTrace(framework.REPO)
  e = symx.Engine()
  P = _P()

  def fn():
    kw1, kw2 = {}, {}
    for f, vals in EQ_FIELDS:
      kw1[f] = vals[symx.choose('p_' + f, 0, len(vals) - 1)]
      kw2[f] = vals[symx.choose('q_' + f, 0, len(vals) - 1)]
    p, q = P(**kw1), P(**kw2)
    same = all(kw1[f] == kw2[f] for f, _ in EQ_FIELDS)
    ok = (p == q) == same and (p == p) and (q == q)
    # equality compares the *current* field values: assign after comparing
    f = EQ_FIELDS[symx.choose('mut', 0, len(EQ_FIELDS) - 1)][0]
    setattr(q, f, kw1[f])
    kw2b = dict(kw2)
    kw2b[f] = kw1[f]
    same2 = all(kw1[g] == kw2b[g] for g, _ in EQ_FIELDS)
    ok = ok and (p == q) == same2 and (q == p) == same2
    return ok, kw1, dict(kw2, _then_assign=f)

  def on_path(eng_, res):
    js.r['obligations'] += 1
    js.r['nontrivial'] += 1
    if res[0] == 'ok' and res[1][0]:
      js.r['discharged'] += 1
    elif res[0] == 'ok':
      js.r['violations'].append(dict(case=dict(kind='eq', p=res[1][1], q=res[
          1][2]), detail='__eq__ disagrees with field-wise equality'))
    else:
      js.r['inconclusive'].append('exception %r' % (res[1],))
    if len(js.r['samples']) < 2 and res[0] == 'ok':
      js.r['samples'].append(dict(p=res[1][1], q=res[1][2]))

  trace.start()
  status = e.explore(fn, on_path, max_s=max_s)
  return js.finish(e, status, trace)


CH_CONDS = ['iroas_float', 'vol_float', 'gratio_float', 'rho_max_float',
            'sig_level_float', 'power_level_float', 'min_corr_float',
            'flevel_float', 'share_range_ff', 'budget_range_ff',
            'int_range_nonfinite', 'int_field_nonfinite']


def ch(**kw):
  return crosshair_run.ch_job(**kw)


def jobs(tier, seed):
  out = []
  for f in SCALARS:
    for shape in ('int', 'float'):
      name = 'symx-%s-%s' % (f, shape)
      out.append(dict(func='field_job', name=name, kwargs=dict(
          name=name, field=f, shape=shape)))
  for f in RANGES:
    for shape in ('ii', 'ff', 'if', 'fi'):
      name = 'symx-%s-%s' % (f, shape)
      out.append(dict(func='field_job', name=name, weight=5, kwargs=dict(
          name=name, field=f, shape=shape)))
  for c in CH_CONDS:
    out.append(dict(func='ch', name='ch-' + c, weight=50, kwargs=dict(
        name='ch-' + c, target='vf.ch.c17.' + c,
        timeout_s=300 if tier == 'quick' else 900), timeout_s=3000))
  out.append(dict(func='special_job', name='special', kwargs=dict(
      name='special')))
  out.append(dict(func='eq_job', name='eq', weight=20, kwargs=dict(name='eq')))
  out.append(dict(func='field_job', name='twin', kwargs=dict(
      name='twin', field='n_test', shape='int', twin=True)))
  return out


def replay(case):
  P = _P()
  k = case.get('kind')
  if k == 'crosshair':
    return crosshair_run.replay_call(case, PID)
  if k == 'field':
    f, vals = case['field'], case['values']
    if vals is None:
      return dict(violates=False, detail='no concrete witness: ' + str(
          case.get('note')))
    base = dict(n_test=7, iroas=1.0)
    if f in SCALARS:
      v = vals[0]
      base[f] = v
      want = _concrete_scalar_ok(f, v)
    else:
      v = tuple(vals)
      base[f] = v
      want = _concrete_range_ok(f, v)
    got = _try(P, base)
    if want is None or got == ('accepted' if want else 'ValueError'):
      return dict(violates=False, detail='%s=%r -> %s as documented' % (
          f, v, got))
    return dict(violates=True, key='C17:%s:%s' % (f, got),
                detail='%s=%r -> %s, documented domain says %s' % (
                    f, v, got, 'accept' if want else 'reject (ValueError)'))
  if k == 'special':
    f, v, want = special_cases()[case['index']]
    base = dict(n_test=7, iroas=1.0)
    base[f] = v
    got = _try(P, base)
    if got == ('accepted' if want else 'ValueError'):
      return dict(violates=False, detail='as documented')
    return dict(violates=True, key='C17:%s:%s' % (f, got),
                detail='%s=%r -> %s, documented domain says %s' % (
                    f, v, got, 'accept' if want else 'reject (ValueError)'))
  if k == 'required-none':
    base = dict(n_test=7, iroas=1.0)
    base[case['field']] = None
    got = _try(P, base)
    return dict(violates=got != 'ValueError', key='C17:%s:None' % case[
        'field'], detail=got)
  if k == 'defaults':
    p = P(n_test=7, iroas=1.0)
    bad = [kk for kk, v in DEFAULTS.items() if getattr(p, kk) != v]
    return dict(violates=bool(bad), key='C17:defaults', detail=str(bad))
  if k == 'eq':
    kw1 = {a: tuple(b) if isinstance(b, list) else b for a, b in case[
        'p'].items()}
    kw2 = {a: tuple(b) if isinstance(b, list) else b for a, b in case[
        'q'].items()}
    then = kw2.pop('_then_assign', None)
    p, q = P(**kw1), P(**kw2)
    same = all(kw1[f] == kw2[f] for f in kw1)
    bad = (p == q) != same
    if then is not None:
      setattr(q, then, kw1[then])
      kw2[then] = kw1[then]
      same2 = all(kw1[f] == kw2[f] for f in kw1)
      bad = bad or (p == q) != same2
    return dict(violates=bad, key='C17:eq', detail='p=%s q=%s (then q.%s = '
                'p.%s) eq=%s' % (kw1, kw2, then, then, p == q))
  return dict(violates=False, detail='unknown case kind')
