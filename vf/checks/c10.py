"""C10: the search API has no hidden state."""
import copy
import dataclasses

import numpy as np
import z3

from vf import framework
from vf import search
from vf import symx
from vf.symx import eng

PID = 'C10'
HAS_TWIN = True
JOB_TIMEOUT = dict(quick=1200, thorough=3400)

OPS = ['geos_within_constraints', 'geo_assignments',
       'treatment_group_size_range', 'count_max_designs',
       'treatment_groups', 'control_groups', 'exhaustive_search',
       'greedy_search', 'search_results', 'edit_parameters']
EDIT_OPS = [0, 3, 6, 7, 9]    # ops used in the parameter-editing sequences
SHARE_A, SHARE_B = (0.05, 0.30), (0.35, 0.75)

META = dict(
    explanation='One real TBRMatchedMarkets object is driven through a call '
    'sequence whose operation codes are z3 Ints (solver-enumerated: every '
    'sequence over the 9 public query/search/result operations up to the '
    'bound is a path), with one or two design parameters symbolic. After '
    'every call the answer is compared with the answer of the same call on a '
    'freshly built object (fresh data, fresh parameter copy) evaluated in the '
    'same path, the caller\'s parameter object is compared field by field '
    'with its initial state and the input frame with its initial content; '
    'search_results() is compared with the last search\'s answer and called '
    'twice.',
    bounds=dict(
        quick='panel P1, 3 eligibility tables: all 9^2 sequences of length 2 '
        '(the inductive form: state left by any single call, then any call) '
        'with treatment size range / control size range / n_designs / '
        'n_geos_max symbolic (one at a time); all 9^3 sequences of length 3 '
        'with concrete parameters; every prefix compared too; on P2 and P11 '
        'all length-3 (thorough: 4) sequences over {geos_within_constraints, '
        'count_max_designs, both searches, edit-the-parameter-object} '
        '(share range toggled, n_geos_max cleared), n_designs symbolic',
        thorough='length 3 with symbolic parameters on P1; P2 and P11; adds '
        'share, geo-ratio tolerance and both size ranges symbolic'),
    outside='panels concrete; sequences longer than the bound; budget-based '
    'scores (symbolic score entries) are compared syntactically',
    stubs=['pandas.core.nanops._ensure_numeric pass-through'],
    assumptions=['floats modelled as exact reals',
                 'np.random is reseeded before every search call (greedy '
                 'draws a dummy series)'],
)


def _norm(v):
  if isinstance(v, (set, frozenset)):
    return ('set', tuple(sorted(_norm(x) for x in v)))
  if isinstance(v, range):
    return ('list', tuple(v))
  if isinstance(v, (list, tuple)):
    return ('list', tuple(_norm(x) for x in v))
  if dataclasses.is_dataclass(v) and not isinstance(v, type):
    return ('dc', tuple((f.name, _norm(getattr(v, f.name))) for f in
                        dataclasses.fields(v)))
  if isinstance(v, symx.SNum):
    return ('sym', str(z3.simplify(v.e)))
  if isinstance(v, (float, np.floating)):
    return 'nan' if v != v else round(float(v), 10)
  if isinstance(v, (int, np.integer, str, bool)) or v is None:
    return v
  return repr(v)


def _designs(res):
  return ('designs', tuple((tuple(sorted(d.treatment_geos)), tuple(sorted(
      d.control_geos)), _norm(tuple(d.score.score))) for d in res))


def _call(mm, op):
  np.random.seed(0)
  with np.errstate(all='ignore'):
    if op == 'geos_within_constraints':
      return _norm(mm.geos_within_constraints)
    if op == 'geo_assignments':
      return _norm(mm.geo_assignments)
    if op == 'treatment_group_size_range':
      return _norm(mm.treatment_group_size_range())
    if op == 'count_max_designs':
      return mm.count_max_designs()
    if op == 'treatment_groups':
      out = []
      for n in list(mm.treatment_group_size_range())[:2]:
        out.append(_norm(list(mm.treatment_group_generator(n))))
      return tuple(out)
    if op == 'control_groups':
      out = []
      for n in list(mm.treatment_group_size_range())[:1]:
        for T in list(mm.treatment_group_generator(n))[:2]:
          out.append(_norm(list(mm.control_group_generator(T))))
      return tuple(out)
    if op == 'exhaustive_search':
      return _designs(mm.exhaustive_search())
    if op == 'greedy_search':
      return _designs(mm.greedy_search())
    if op == 'search_results':
      a = _designs(mm.search_results())
      b = _designs(mm.search_results())
      return a if a == b else ('search_results-differ', a, b)
  raise KeyError(op)


def _attempt(f):
  try:
    return ('ok', f())
  except symx.PathAbort:
    raise
  except Exception as e:  # pylint: disable=broad-except
    return ('raises', type(e).__name__)


def _par_state(par):
  return tuple((f.name, id(getattr(par, f.name)), _norm(getattr(par, f.name)))
               for f in dataclasses.fields(par))


def run_sequence(ctx, elig, sym, ops_codes, conc=None):
  """Runs the sequence on one object; returns list of mismatch descriptions."""
  M = ctx.M
  par, sv = search.make_params(ctx, sym, conc)
  ge, cells = search.make_elig(ctx, elig)
  df0 = ctx.df.copy()
  df_in = ctx.df.copy()
  state0 = _par_state(par)
  pristine = copy.copy(par)

  def fresh():
    g2, _ = search.make_elig(ctx, elig)
    return M['mm'].TBRMatchedMarkets(
        M['data'].TBRMMData(ctx.df.copy(), 'sales', g2), copy.copy(pristine))
  mm = M['mm'].TBRMatchedMarkets(M['data'].TBRMMData(df_in, 'sales', ge), par)
  bad = []
  last_search = None
  for step, code in enumerate(ops_codes):
    op = OPS[code]
    if op == 'edit_parameters':
      # the user edits the (public) parameter object between calls: the share
      # range toggles and n_geos_max is cleared; a fresh object is built from
      # the edited parameters
      new = SHARE_B if par.treatment_share_range == SHARE_A else SHARE_A
      for p_ in (par, pristine):
        p_.treatment_share_range = new
        p_.n_geos_max = None
      state0 = _par_state(par)
      continue
    got = _attempt(lambda: _call(mm, op))
    if op == 'search_results':
      if last_search is None:
        want = _attempt(lambda: _call(fresh(), op))
      else:
        want = last_search
    else:
      want = _attempt(lambda: _call(fresh(), op))
    if op in ('exhaustive_search', 'greedy_search'):
      last_search = want
    if op == 'search_results' and want[0] == 'raises':
      # nothing to retrieve (no search yet, or the last search rejected its
      # input): what search_results() does then is unspecified
      continue
    if got != want:
      bad.append('step %d %s: used object answers %s, fresh object %s' % (
          step, op, str(got)[:160], str(want)[:160]))
    if _par_state(par) != state0:
      now = _par_state(par)
      ch = [a[0] for a, b in zip(now, state0) if a != b]
      bad.append('step %d %s: caller\'s parameter object modified: %s' % (
          step, op, ch))
      state0 = now
    if not df_in.equals(df0):
      bad.append('step %d %s: input frame modified' % (step, op))
  return bad, sv


def seq_job(name, panel, elig, sym, length, first=None, twin=False, seed=0,
            max_s=1000, ops=None, conc=None):
  symx.patch_pandas()
  ctx = search.Ctx(panel, seed)
  js = framework.JobStats(name)
  trace = symx.FunctionTrace(framework.REPO)
  e = symx.Engine()

  def fn():
    codes = []
    for i in range(length):
      if i == 0 and first is not None:
        codes.append(first)
      elif ops is not None:
        codes.append(ops[symx.choose('op%d' % i, 0, len(ops) - 1)])
      else:
        codes.append(symx.choose('op%d' % i, 0, len(OPS) - 2))
    bad, sv = run_sequence(ctx, elig, sym, codes, conc=conc)
    return codes, bad, sv

  def on_path(eng_, res):
    if res[0] == 'exc':
      js.r['inconclusive'].append('harness exception %r' % (res[1],))
      return
    codes, bad, sv = res[1]
    js.r['nontrivial'] += 1
    js.r['obligations'] += 1
    if twin:
      bad = ['twin']
    if not bad:
      js.r['discharged'] += 1
    else:
      model = eng_.witness()
      out = type('O', (), {})()
      out.sv = sv
      vals = search.model_params(model, out) if model is not None else {}
      if len(js.r['violations']) < 30:
        js.r['violations'].append(dict(
            case=dict(kind='sequence', panel=panel, seed=seed, elig=elig,
                      ops=codes, conc=search.apply_concrete(conc, vals)),
            twin=twin, detail=bad[:3]))
    if len(js.r['samples']) < 2:
      js.r['samples'].append(dict(sequence=[OPS[c] for c in codes],
                                  symbolic=list(sym), mismatches=bad[:2]))

  trace.start()
  status = e.explore(fn, on_path, max_s=max_s)
  return js.finish(e, status, trace)


ELIGS = [None, {'0': 't', '1': 'ctx', '2': 'ctx'},
         {'0': 'ct', '1': 'cx', '2': 'ctx'}]


def _sj(panel, i, el, sym, length, f, tier, w=10, conc=None):
  name = '%s-e%d-%s-len%d-first=%s' % (panel, i, '+'.join(sym) or 'conc',
                                       length, OPS[f])
  return dict(func='seq_job', name=name, weight=w + (20 if f in (6, 7) else 0),
              kwargs=dict(name=name, panel=panel, elig=el, sym=sym,
                          length=length, first=f,
                          max_s=1100 if tier == 'quick' else 3000),
              timeout_s=1200 if tier == 'quick' else 3300)


def jobs(tier, seed):
  out = []
  syms = [['tsize'], ['csize'], ['k'], ['ngm']]
  if tier == 'thorough':
    syms += [['share'], ['gratio'], ['tsize', 'csize']]
  for i, el in enumerate(ELIGS):
    for f in range(len(OPS) - 1):
      for sym in syms:
        out.append(_sj('P1', i, el, sym, 2, f, tier))
      # all sequences of length 3 with concrete parameters
      out.append(_sj('P1', i, el, [], 3, f, tier, w=40))
  # sequences in which the user edits the parameter object between calls
  for panel in ['P2', 'P11']:
    for f in EDIT_OPS:
      ln = 3 if tier == 'quick' else 4
      name = '%s-edit-len%d-first=%s' % (panel, ln, OPS[f])
      out.append(dict(func='seq_job', name=name, weight=60, kwargs=dict(
          name=name, panel=panel, elig=None, sym=['k'], length=ln, first=f,
          ops=EDIT_OPS, conc=dict(treatment_share_range=SHARE_A, n_geos_max=3),
          max_s=1100 if tier == 'quick' else 3000),
                      timeout_s=1200 if tier == 'quick' else 3300))
  if tier == 'thorough':
    for f in range(len(OPS) - 1):
      for sym in (['tsize'], ['k']):
        out.append(_sj('P1', 0, None, sym, 3, f, tier, w=80))
      for panel in ['P2', 'P11']:
        out.append(_sj(panel, 0, None, [], 3, f, tier, w=70))
        for sym in (['tsize'], ['k']):
          out.append(_sj(panel, 0, None, sym, 2, f, tier, w=60))
  out.append(dict(func='seq_job', name='twin', kwargs=dict(
      name='twin', panel='P1', elig=None, sym=['k'], length=1, first=3,
      twin=True)))
  return out


def replay(case):
  ctx = search.Ctx(case['panel'], case.get('seed', 0))
  conc = dict(case.get('conc') or {})
  for k, v in list(conc.items()):
    if isinstance(v, list):
      conc[k] = tuple(v)
  try:
    bad, _ = run_sequence(ctx, case['elig'], (), case['ops'], conc=conc)
  except ValueError as ex:
    return dict(violates=False, detail='rejected: %s' % ex)
  if not bad:
    return dict(violates=False, detail='all answers equal a fresh object\'s')
  kind = 'parameters-modified' if any('parameter object' in b for b in
                                      bad) else (
      'frame-modified' if any('frame' in b for b in bad) else 'answer-differs')
  ops = [OPS[c] for c in case['ops']]
  return dict(violates=True, key='C10:%s:%s' % (kind, bad[0].split(':')[0].split(
      ' ', 2)[2]), detail='sequence %s: %s' % (ops, bad[0]))
