"""C04: diagnostics and score attached to a design belong to its reported
geos."""
import random

from vf import search
from vf import searchjob

PID = 'C04'
HAS_TWIN = True
JOB_TIMEOUT = dict(quick=900, thorough=3000)
ORACLES = ['diag']
RT = list(search.ROW_TYPES)

META = dict(
    explanation='Both real searches executed concolically with n_pretest_max, '
    'n_designs, n_geos_max and the numeric constraints as z3 variables and '
    'eligibility tables that drop geos from the search (so geo index != row '
    'rank); on every path, for every returned design and position, the '
    'series held by its diagnostics are compared with the sums over the '
    'reported geo IDs recomputed from the raw frame (last n_pretest_max '
    'dates), and corr / required impact / four test outcomes / score tuple '
    'with a fresh real TBRMMDiagnostics + TBRMMScore on those two series; the '
    'budget-based last score entry is discharged as a z3 obligation in the '
    'symbolic budget maximum.',
    bounds=dict(
        quick='panels P1 P2 P7; n_pretest_max in n_test+3..D+2, n_designs '
        '1..4, n_geos_max 2..N+1 symbolic (alone and paired with a '
        'constraint); 6 eligibility tables incl. excluded / fixed geos; both '
        'searches; histories: the TBRMMData object was used before by '
        'another search object (longer window) or is shared with a second '
        'search object called in between',
        thorough='adds P3 P4 P8, seeded eligibility tables, all single '
        'constraints x npm'),
    outside='panels concrete; series compared with rtol 1e-9 (summation '
    'order); designs whose score contains NaN compared NaN==NaN',
    stubs=['pandas.core.nanops._ensure_numeric pass-through'],
    assumptions=['floats modelled as exact reals',
                 'reference values come from the real TBRMMDiagnostics / '
                 'TBRMMScore applied to raw-frame sums (C05/C06 judge those '
                 'numerics themselves)'],
)

ELIGS = {
    'P1': [None, {'0': 'x', '1': 'ctx', '2': 'ctx'},
           {'0': 'ctx', '1': 'x', '2': 'ct'}, {'1': 'ctx', '2': 'ctx'}],
    'P2': [None, {'0': 'ctx', '1': 'x', '2': 'ctx', '3': 'ctx'},
           {'0': 'c', '1': 'ctx', '2': 'x', '3': 't'},
           {'0': 'ctx', '2': 'ctx', '3': 'cx'},
           {'0': 'x', '1': 'x', '2': 'ct', '3': 'ctx'}],
    'P7': [None, {'0': 'tx', '1': 'x', '2': 'ctx', '3': 'cx'}],
}
SYMS = [['npm'], ['k'], ['ngm'], ['npm', 'k'], ['budget'], ['budget', 'k'],
        ['share'], ['ngm', 'npm'], ['vol', 'npm']]


def _mk(panel, m, sym, el, i, seed=0, max_s=800, history=None):
  name = '%s-%s-%s-e%d%s' % (panel, m, '+'.join(sym), i,
                             '-' + history if history else '')
  w = (20 if panel != 'P1' else 0) + 6 * len(sym) + (10 if el is None else 0)
  return dict(func='job', name=name, weight=w, kwargs=dict(
      name=name, panel=panel, method=m, sym=list(sym), elig=el, seed=seed,
      max_s=max_s, history=history))


def jobs(tier, seed):
  out = []
  for m in ['exhaustive', 'greedy']:
    for panel, els in ELIGS.items():
      for i, el in enumerate(els):
        for sym in SYMS:
          if tier == 'quick' and panel != 'P1' and (
              (len(sym) > 1 and (el is None or 'budget' in sym)) or
              (el is None and 'budget' in sym)):
            continue   # 4-geo default-eligibility budget cells: thorough
          if panel != 'P1' and el is None and 'budget' in sym and len(
              sym) > 1:
            continue   # does not exhaust within an hour
          out.append(_mk(panel, m, sym, el, i, max_s=800 if tier == 'quick'
                         else 3000))
  # the data object was used before by / is shared with another search object
  for m in ['exhaustive', 'greedy']:
    for h in ['prior', 'interleave']:
      for panel in ['P1', 'P2']:
        for i, el in enumerate(ELIGS[panel][:3]):
          for sym in (['npm'], ['ngm'], ['k']):
            out.append(_mk(panel, m, sym, el, i, history=h))
  if tier == 'thorough':
    rnd = random.Random(seed)
    for m in ['exhaustive', 'greedy']:
      for panel in ['P3', 'P4', 'P8']:
        n = dict(P3=4, P4=3, P8=4, P10=5)[panel]
        els = [None] + [dict(zip('01234'[:n], (rnd.choice(RT) for _ in range(
            n)))) for _ in range(3)]
        for i, el in enumerate(els):
          for sym in SYMS[:6]:
            out.append(_mk(panel, m, sym, el, i, seed=seed, max_s=2500))
  out.append(dict(func='job', name='twin', kwargs=dict(
      name='twin', panel='P1', method='exhaustive', sym=['k'], elig=None,
      twin=True)))
  return out


def job(**kw):
  return searchjob.search_job(PID, oracles=ORACLES, **kw)


def replay(case):
  return searchjob.replay_search(case, PID)
