"""C02: returned designs satisfy every user-specified numeric constraint."""
import itertools
import random

from vf import search
from vf import searchjob

PID = 'C02'
HAS_TWIN = True
JOB_TIMEOUT = dict(quick=900, thorough=3000)
ORACLES = ['constraints']
SIX = ['tsize', 'csize', 'gratio', 'vol', 'share', 'budget']

META = dict(
    explanation='Both real searches executed concolically with the six '
    'constraint parameters as z3 variables (reals for share/budget/volume/'
    'geo-ratio tolerances, ints for size ranges); the solver enumerates every '
    'cell of the threshold arrangement (path) and proves, per returned '
    'design, each constraint clause from the path condition. Group facts '
    '(shares, sizes, budgets) are recomputed from the raw frame.',
    bounds=dict(
        quick='panels P1 (3 geos), P2 (4 geos): each of the six constraints '
        'symbolic alone and all 15 pairs on P1, singles + 6 pairs on P2; 4-5 '
        'eligibility tables incl. fixed/ct/cx/tx rows; both searches; '
        'n_designs=3; other constraints None or listed concrete values',
        thorough='adds panels P3 P8, all pairs on 4-geo panels, two triples '
        'on P1, seeded eligibility tables, concrete values for the '
        'non-symbolic constraints'),
    outside='panel cells concrete (listed family); iroas in {2.0}; real-'
    'valued bounds are don\'t-care within relative 1e-9 (IEEE rounding of the '
    'group sums); integer-valued bounds exact',
    stubs=['pandas.core.nanops._ensure_numeric pass-through'],
    assumptions=[
        'floats modelled as exact reals (exact Fraction lifting)',
        'share constraint accepted under either documented reading',
        'required budget recomputed by a fresh real TBRMMDiagnostics on the '
        'raw-frame sums'],
)

ELIGS3 = [None,
          {'0': 'ctx', '1': 'c', '2': 'ctx'},
          {'0': 't', '1': 'ctx', '2': 'ctx'},
          {'0': 'ct', '1': 'cx', '2': 'tx'}]
ELIGS4 = [None,
          {'0': 'c', '1': 'c', '2': 'ctx', '3': 'tx'},
          {'0': 'ctx', '1': 't', '2': 'ctx', '3': 'ct'},
          {'0': 'cx', '1': 'ctx', '2': 'tx', '3': 'ctx'},
          {'0': 'ctx', '1': 'ctx', '2': 'x', '3': 'ct'}]
PAIRS6 = [('share', 'budget'), ('vol', 'gratio'), ('tsize', 'csize'),
          ('share', 'vol'), ('budget', 'tsize'), ('gratio', 'csize')]
CONC_VARIANTS = [
    {},
    dict(volume_ratio_tolerance=1.5, treatment_geos_range=(1, 2)),
    dict(geo_ratio_tolerance=1.0, budget_range=(0.5, 60.0)),
    dict(treatment_share_range=(0.1, 0.6), control_geos_range=(1, 2)),
]


def _mk(panel, m, sym, el, i, conc=None, seed=0, max_s=800):
  name = '%s-%s-%s-e%d%s' % (panel, m, '+'.join(sym), i,
                             '-c' if conc else '')
  w = (20 if panel != 'P1' else 0) + 6 * len(sym) + (
      4 if m == 'exhaustive' else 0) + (10 if el is None else 0)
  return dict(func='job', name=name, weight=w, kwargs=dict(
      name=name, panel=panel, method=m, sym=list(sym), elig=el, conc=conc,
      seed=seed, max_s=max_s))


def _drop(conc, sym):
  """Remove concrete settings of fields that are symbolic in this job."""
  m = dict(share='treatment_share_range', budget='budget_range',
           vol='volume_ratio_tolerance', gratio='geo_ratio_tolerance',
           tsize='treatment_geos_range', csize='control_geos_range')
  return {k: v for k, v in conc.items() if k not in [m[s] for s in sym]}


def jobs(tier, seed):
  out = []
  methods = ['exhaustive', 'greedy']
  pairs_all = list(itertools.combinations(SIX, 2))
  for m in methods:
    for i, el in enumerate(ELIGS3):
      for s in SIX:
        out.append(_mk('P1', m, [s], el, i))
      for pr in pairs_all:
        out.append(_mk('P1', m, pr, el, i))
    for i, el in enumerate(ELIGS4):
      for s in SIX:
        out.append(_mk('P2', m, [s], el, i))
      for pr in (PAIRS6 if tier == 'quick' else pairs_all):
        if tier == 'quick' and i not in (1, 2):
          continue
        if i == 0 and ('budget' in pr or set(pr) == {'share', 'vol'}):
          continue   # default eligibility x budget pairs on 4 geos: hours
        out.append(_mk('P2', m, pr, el, i, max_s=2500))
    # rho_max at its documented minimum: actual correlations exceed it, so
    # the optimistic budget no longer bounds the actual one from above
    for i, el in enumerate(ELIGS3[:3]):
      out.append(_mk('P1', m, ['budget'], el, 20 + i, conc=dict(rho_max=0.9)))
    out.append(_mk('P11', m, ['budget'], ELIGS4[3], 23, conc=dict(
        rho_max=0.9), max_s=2500))
    # symbolic constraint next to concrete values of others
    for ci, conc in enumerate(CONC_VARIANTS[1:]):
      for s in SIX:
        c = _drop(conc, [s])
        if c:
          out.append(_mk('P1', m, [s], ELIGS3[ci % len(ELIGS3)], 10 + ci,
                         conc=c))
  if tier == 'thorough':
    rnd = random.Random(seed)
    rt = list(search.ROW_TYPES)
    for m in methods:
      for panel in ['P3', 'P8']:
        n = 3 if panel == 'P4' else 4
        els = [None] + [dict(zip('0123'[:n], (rnd.choice(rt) for _ in range(
            n)))) for _ in range(3)]
        for i, el in enumerate(els):
          for s in SIX:
            if el is None and s == 'budget' and m == 'exhaustive':
              continue   # default eligibility on 4 geos: does not exhaust
            out.append(_mk(panel, m, [s], el, i, seed=seed))
          for pr in PAIRS6:
            if el is None and ('budget' in pr or set(pr) == {'share', 'vol'}):
              continue   # default eligibility on 4 geos: does not exhaust
            out.append(_mk(panel, m, pr, el, i, seed=seed, max_s=2500))
      for tr in [('tsize', 'csize', 'gratio'), ('share', 'tsize', 'gratio')]:
        for i, el in enumerate(ELIGS3[:2]):
          out.append(_mk('P1', m, tr, el, i, max_s=2800))
  out.append(dict(func='job', name='twin', kwargs=dict(
      name='twin', panel='P1', method='exhaustive', sym=['share'], elig=None,
      twin=True)))
  return out


def job(**kw):
  return searchjob.search_job(PID, oracles=ORACLES, **kw)


def replay(case):
  return searchjob.replay_search(case, PID)
