"""C09: searches are total - a list or ValueError, nothing else, and they
terminate."""
import itertools
import random

from vf import search
from vf import searchjob

PID = 'C09'
HAS_TWIN = True
JOB_TIMEOUT = dict(quick=900, thorough=3000)
ORACLES = ['total']
RT = list(search.ROW_TYPES)

META = dict(
    explanation='Both real searches executed concolically over symbolic '
    'eligibility cells and constraint parameters, including infeasible and '
    'mutually unsatisfiable settings and 1-2 geo panels; on every feasible '
    'path the outcome is asserted to be a list or a ValueError; a per-call '
    'wall-clock guard turns suspected non-termination into a counterexample '
    'that is replayed concretely.',
    bounds=dict(
        quick='P1 all 7^3 eligibility matrices (both searches); P5/P6 (2 and '
        '1 geos) all 7^2 / 7 matrices with size ranges symbolic; P1/P2 with '
        'each constraint and 8 pairs symbolic over 5 eligibility tables '
        '(no control-eligible, no treatment-eligible, all fixed, ...); iroas '
        'in {2.0, 0.0} (with and without a budget range); n_pretest_max and '
        'n_designs symbolic; shared / reused data-object histories',
        thorough='adds all 7^3 x {tsize, share} symbolic, '
        'panels P3 P4 P8 P9 with seeded tables'),
    outside='panels concrete (listed family, each meeting the precondition: '
    '>= n_test+3 points in the window, non-constant series); per-call '
    'wall-clock guard 20 s (replayed with 60 s)',
    stubs=['pandas.core.nanops._ensure_numeric pass-through'],
    assumptions=['floats modelled as exact reals',
                 'exceptions raised inside numpy/scipy on the concrete panel '
                 'are those of the real libraries'],
)

ELIGS3 = [None,
          {'0': 'c', '1': 'c', '2': 'c'},        # no treatment-eligible geo
          {'0': 't', '1': 't', '2': 'tx'},       # no control-eligible geo
          {'0': 'x', '1': 'x', '2': 'ctx'},
          {'0': 't', '1': 'c', '2': 'ct'},
          {'0': 'ctx', '1': 'tx', '2': 'cx'}]
SIX = ['tsize', 'csize', 'gratio', 'vol', 'share', 'budget']
PAIRS = [('tsize', 'csize'), ('gratio', 'tsize'), ('gratio', 'budget'),
         ('share', 'budget'), ('vol', 'share'), ('gratio', 'csize'),
         ('budget', 'tsize'), ('share', 'gratio')]


def _mk(panel, m, sym, el, tag, conc=None, elig_fix=None, seed=0,
        max_s=800, history=None):
  name = '%s-%s-%s-%s' % (panel, m, '+'.join(sym) or 'none', tag)
  return dict(func='job', name=name, kwargs=dict(
      name=name, panel=panel, method=m, sym=list(sym), elig=el, conc=conc,
      elig_fix=elig_fix, seed=seed, max_s=max_s, path_timeout=20,
      history=history))


def jobs(tier, seed):
  out = []
  methods = ['exhaustive', 'greedy']
  for m in methods:
    for r0 in RT:
      out.append(_mk('P1', m, [], 'sym', 'all343-' + r0, elig_fix={'0': r0}))
      out.append(_mk('P1', m, ['gratio'], 'sym', 'all343g-' + r0,
                     elig_fix={'0': r0}, max_s=2500))
    out.append(_mk('P5', m, ['tsize', 'csize'], 'sym', 'all49'))
    out.append(_mk('P5', m, ['gratio', 'k'], 'sym', 'all49'))
    out.append(_mk('P6', m, ['tsize'], 'sym', 'all7'))
    out.append(_mk('P6', m, ['gratio', 'vol'], 'sym', 'all7'))
    for i, el in enumerate(ELIGS3):
      for s in SIX + ['ngm', 'npm', 'k']:
        out.append(_mk('P1', m, [s], el, 'e%d' % i))
      for pr in PAIRS:
        out.append(_mk('P1', m, pr, el, 'e%d' % i))
      for s in (['tsize'], ['gratio'], ['k']):
        out.append(_mk('P1', m, s, el, 'e%d-iroas0-nobudget' % i,
                       conc=dict(iroas=0.0)))
      for h in ('prior', 'interleave', 'interleave_small', 'second'):
        out.append(_mk('P1', m, ['ngm'], el, 'e%d-%s' % (i, h), history=h))
      # zero iroas: budgets are infinite
      out.append(_mk('P1', m, ['budget'], el, 'e%d-iroas0' % i,
                     conc=dict(iroas=0.0)))
      out.append(_mk('P1', m, ['gratio'], el, 'e%d-iroas0b' % i,
                     conc=dict(iroas=0.0, budget_range=(1.0, 50.0))))
    for i, el in enumerate([None, {'0': 'c', '1': 'ct', '2': 'tx', '3': 'x'},
                            {'0': 't', '1': 't', '2': 'c', '3': 'c'}]):
      for s in SIX:
        out.append(_mk('P2', m, [s], el, 'e%d' % i))
  if tier == 'thorough':
    rnd = random.Random(seed)
    for m in methods:
      for s in (['tsize'], ['share']):
        for r0 in RT:
          out.append(_mk('P1', m, s, 'sym', 'all343-' + r0,
                         elig_fix={'0': r0}, max_s=2500))
      for panel in ['P3', 'P4', 'P8', 'P9']:
        n = 3 if panel in ('P4', 'P9') else 4
        for i in range(4):
          el = dict(zip('0123'[:n], (rnd.choice(RT) for _ in range(n))))
          for s in SIX:
            out.append(_mk(panel, m, [s], el, 'r%d' % i, seed=seed))
          for pr in PAIRS[:4]:
            out.append(_mk(panel, m, pr, el, 'r%d' % i, seed=seed,
                           max_s=2500))
  out.append(dict(func='job', name='twin', kwargs=dict(
      name='twin', panel='P5', method='greedy', sym=['tsize'], elig=None,
      twin=True)))
  return out


def job(**kw):
  return searchjob.search_job(PID, oracles=ORACLES, **kw)


def replay(case):
  return searchjob.replay_search(case, PID)
