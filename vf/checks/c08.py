"""C08: design diagnostics never serve stale values after their inputs
change."""
import numpy as np
import z3

from vf import framework
from vf import symx
from vf.symx import eng

PID = 'C08'
HAS_TWIN = True
JOB_TIMEOUT = dict(quick=900, thorough=3000)

READS = ['corr', 'required_impact', 'pretestfit', 'bbtest', 'dwtest',
         'aatest', 'corr_test', 'tests_ok', 'tbrfit',
         'estimate_required_impact']
SLOTS = ['_corr', '_required_impact', '_pretestfit', '_aatest', '_bbtest',
         '_dwtest', '_tests_ok']
SLOT_SRC = dict(_corr='corr', _required_impact='required_impact',
                _pretestfit='pretestfit', _aatest='aatest', _bbtest='bbtest',
                _dwtest='dwtest', _tests_ok='tests_ok')

META = dict(
    explanation='The real TBRMMDiagnostics (real numpy/scipy on a pool of '
    'concrete series of two different lengths) is driven (i) through one '
    'inductive step from an arbitrary cache state: current series drawn from '
    'the pool and, for each of the seven cache slots, a z3 Bool "filled with '
    'the value a fresh object computes for the current series" (the '
    'representation invariant), then one solver-chosen operation; (ii) '
    'through every bounded history of solver-chosen operations from a fresh '
    'object. After the step / at every point of the history every derived '
    'quantity read from the used object is compared (NaN-aware, by value) '
    'with a freshly built object holding the same current series and '
    'parameters; raised exception types are compared too.',
    bounds=dict(
        quick='pool: 3 treatment series (lengths 20, 20, 14) x 3 control '
        'series per length (one equal to a treatment series: degenerate '
        'perfect fit) + cleared control; 17 operations (4 set-control, 3 '
        'set-treatment, 10 reads incl. tbrfit and estimate_required_impact); inductive step over all 2^7 '
        'slot fillings; all histories of length <= 3 from a fresh object and '
        'from an object that already holds any control series',
        thorough='histories of length 4; a second parameter object'),
    outside='series are a listed pool, not symbolic (symbolic series through '
    'the diagnostics\' tests stall nlsat: measured); histories longer than '
    'the bound are covered by the inductive step only as far as the seven '
    'documented cache slots capture the hidden state',
    stubs=[],
    assumptions=['value equality is NaN-aware and arrays are compared by '
                 'value (rounded to 12 digits)'],
)


def _pool():
  rng = np.random.default_rng(0)
  b20 = rng.normal(size=20).cumsum()
  b14 = rng.normal(size=14).cumsum()
  ys = [100 + 10 * b20 + rng.normal(size=20),
        50 + 5 * b20 + 3 * rng.normal(size=20),
        80 + 8 * b14 + rng.normal(size=14)]
  xs = {20: [60 + 6 * b20 + rng.normal(size=20),
             rng.normal(size=20) * 5 + 20, ys[0].copy()],
        14: [40 + 4 * b14 + rng.normal(size=14),
             rng.normal(size=14) * 5 + 20, ys[2].copy()]}
  return ys, xs


def _par(which=0):
  from matched_markets.methodology.tbrmmdesignparameters import TBRMMDesignParameters
  if which == 0:
    return TBRMMDesignParameters(n_test=5, iroas=1.0)
  return TBRMMDesignParameters(n_test=3, iroas=1.0, sig_level=0.8,
                               min_corr=0.9)


def _norm(v):
  if v is None:
    return None
  if isinstance(v, tuple):
    return tuple(_norm(x) for x in v)
  if isinstance(v, np.ndarray):
    return tuple('nan' if q != q else q for q in np.round(v, 10).tolist())
  if isinstance(v, (float, np.floating)):
    return 'nan' if v != v else round(float(v), 10)
  if isinstance(v, (bool, np.bool_)):
    return bool(v)
  return v


def _read(d, r):
  try:
    with np.errstate(all='ignore'):
      if r == 'tbrfit':
        return ('ok', _norm(d.tbrfit(12.5, 90.25)))
      if r == 'estimate_required_impact':
        return ('ok', _norm(d.estimate_required_impact(0.9)))
      return ('ok', _norm(getattr(d, r)))
  except symx.PathAbort:
    raise
  except Exception as e:  # pylint: disable=broad-except
    return ('raises', type(e).__name__)


class State:
  def __init__(self, par_i=0):
    from matched_markets.methodology.tbrmmdiagnostics import TBRMMDiagnostics
    self.D = TBRMMDiagnostics
    self.ys, self.xs = _pool()
    self.par = _par(par_i)

  def fresh(self, yi, xi):
    d = self.D(self.ys[yi], self.par)
    if xi is not None:
      d.x = self.xs[len(self.ys[yi])][xi]
    return d


def _apply(st, d, yi, xi, op):
  """op: 0..3 set x (3 = clear), 4..6 set y, 7.. read.  Returns
  (yi, xi, read_name|None)."""
  if op <= 3:
    nx = None if op == 3 else op
    d.x = None if nx is None else st.xs[len(st.ys[yi])][nx]
    return yi, nx, None
  if op <= 6:
    ny = op - 4
    d.y = st.ys[ny]
    return ny, None, None
  return yi, xi, READS[op - 7]


N_OPS = 7 + len(READS)


def _compare_all(st, d, yi, xi, only=None):
  ref = st.fresh(yi, xi)
  bad = []
  for r in (READS if only is None else [only]):
    # the fresh object is read in the same order, one fresh object per read
    # so that reads on the reference never interact
    got = _read(d, r)
    want = _read(st.fresh(yi, xi), r)
    if got != want:
      bad.append(r)
  del ref
  return bad


def step_job(name, twin=False, par_i=0, max_s=800, y_fixed=None, x_fixed=None):
  st = State(par_i)
  js = framework.JobStats(name)
  trace = symx.FunctionTrace(framework.REPO)
  e = symx.Engine(seed_np=False)

  def fn():
    yi = y_fixed if y_fixed is not None else symx.choose('y', 0, 2)
    xi = x_fixed if x_fixed is not None else symx.choose('x', -1, 2)
    xi = None if xi < 0 else xi
    d = st.fresh(yi, xi)
    filled = []
    if xi is not None:
      for s in SLOTS:
        if symx.flag('fill' + s):
          ref = st.fresh(yi, xi)
          try:
            with np.errstate(all='ignore'):
              setattr(d, s, getattr(ref, SLOT_SRC[s]))
            filled.append(s)
          except Exception:  # pylint: disable=broad-except
            pass        # the fresh object cannot compute it: slot stays empty
    op = symx.choose('op', 0, N_OPS - 1)
    yi2, xi2, rd = _apply(st, d, yi, xi, op)
    bad = _compare_all(st, d, yi2, xi2, only=rd)
    # the invariant holds again: every slot is empty or holds the fresh value
    bad += ['after:' + b for b in _compare_all(st, d, yi2, xi2)]
    return dict(y=yi, x=xi, filled=filled, op=op), bad

  def on_path(eng_, res):
    _record(js, res, twin, 'step')

  trace.start()
  status = e.explore(fn, on_path, max_s=max_s)
  return js.finish(e, status, trace)


def history_job(name, length, first=None, twin=False, par_i=0, max_s=800,
                preset_x=False):
  st = State(par_i)
  js = framework.JobStats(name)
  trace = symx.FunctionTrace(framework.REPO)
  e = symx.Engine(seed_np=False)

  def fn():
    yi = symx.choose('y', 0, 2)
    xi = symx.choose('x0', 0, 2) if preset_x else None
    d = st.fresh(yi, xi)
    ops = []
    bad = []
    for i in range(length):
      op = first if (i == 0 and first is not None) else symx.choose(
          'op%d' % i, 0, N_OPS - 1)
      ops.append(op)
      yi, xi, rd = _apply(st, d, yi, xi, op)
      if rd is not None:
        b = _compare_all(st, d, yi, xi, only=rd)
        bad += ['step %d read %s' % (i, x) for x in b]
    bad += ['final read %s' % x for x in _compare_all(st, d, yi, xi)]
    return dict(y0=ops and None, ops=ops, y=None, x0=None), bad, ops

  def fn2():
    y0 = None
    r = fn()
    return r

  def on_path(eng_, res):
    if res[0] == 'ok':
      info, bad, ops = res[1]
      w = eng_.witness()
      y0 = int(symx.model_value(w, z3.Int('y'))) if w is not None else 0
      x0 = int(symx.model_value(w, z3.Int('x0'))) if (
          w is not None and preset_x) else None
      res = ('ok', (dict(y0=y0, ops=ops, x0=x0), bad))
    _record(js, res, twin, 'history')

  trace.start()
  status = e.explore(fn2, on_path, max_s=max_s)
  return js.finish(e, status, trace)


def _record(js, res, twin, kind):
  js.r['obligations'] += 1
  js.r['nontrivial'] += 1
  if res[0] == 'exc':
    js.r['inconclusive'].append('harness exception %r' % (res[1],))
    return
  info, bad = res[1]
  if twin:
    bad = ['twin']
  if not bad:
    js.r['discharged'] += 1
  elif len(js.r['violations']) < 40:
    js.r['violations'].append(dict(case=dict(kind=kind, **info), twin=twin,
                                   detail=bad[:4]))
  if len(js.r['samples']) < 3:
    js.r['samples'].append(dict(kind=kind, **info))


def _opname(op):
  if op <= 2:
    return 'set control series #%d' % op
  if op == 3:
    return 'clear control series'
  if op <= 6:
    return 'set treatment series #%d' % (op - 4)
  return 'read ' + READS[op - 7]


def jobs(tier, seed):
  out = []
  for y in range(3):
    for x in range(-1, 3):
      nm = 'inductive-step-y%d-x%d' % (y, x)
      out.append(dict(func='step_job', name=nm, weight=50, kwargs=dict(
          name=nm, y_fixed=y, x_fixed=x)))
  for f in range(N_OPS):
    name = 'histories-len3-first=%s' % _opname(f)
    out.append(dict(func='history_job', name=name, kwargs=dict(
        name=name, length=3, first=f)))
  # histories from an object that already holds a control series
  for f in range(N_OPS):
    name = 'histories-len3-x-preset-first=%s' % _opname(f)
    out.append(dict(func='history_job', name=name, kwargs=dict(
        name=name, length=3, first=f, preset_x=True)))
  if tier == 'thorough':
    out.append(dict(func='step_job', name='inductive-step-par2', weight=50,
                    kwargs=dict(name='inductive-step-par2', par_i=1)))
    for f in range(N_OPS):
      name = 'histories-len4-first=%s' % _opname(f)
      out.append(dict(func='history_job', name=name, weight=40, kwargs=dict(
          name=name, length=4, first=f, max_s=3000), timeout_s=3300))
  out.append(dict(func='history_job', name='twin', kwargs=dict(
      name='twin', length=1, twin=True)))
  return out


def replay(case):
  st = State(0)
  if case['kind'] == 'step':
    # confirm through the public API: reach the pre-state by reading the
    # filled slots, then apply the operation
    yi, xi = case['y'], case['x']
    d = st.fresh(yi, xi)
    for s in case['filled']:
      _read(d, SLOT_SRC[s])
    yi2, xi2, rd = _apply(st, d, yi, xi, case['op'])
    bad = _compare_all(st, d, yi2, xi2)
    hist = ['read ' + SLOT_SRC[s] for s in case['filled']] + [
        _opname(case['op'])]
  else:
    yi = case['y0']
    xi = case.get('x0')
    d = st.fresh(yi, xi)
    bad = []
    for op in case['ops']:
      yi, xi, rd = _apply(st, d, yi, xi, op)
      if rd is not None:
        bad += _compare_all(st, d, yi, xi, only=rd)
    bad += _compare_all(st, d, yi, xi)
    hist = [_opname(o) for o in case['ops']]
  if not bad:
    return dict(violates=False, detail='history %s: all reads equal a fresh '
                'object\'s' % hist)
  kinds = sorted(set(b.split(':')[-1] for b in bad))
  return dict(violates=True, key='C08:stale:%s' % ','.join(kinds),
              detail='after %s the object reports stale %s' % (hist, kinds))
