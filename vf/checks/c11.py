"""C11: count_max_designs equals the size of the enumerated design space."""
import itertools

import numpy as np
import pandas as pd
import z3

from vf import framework
from vf import panels
from vf import search
from vf import symx
from vf.symx import F, eng

PID = 'C11'
HAS_TWIN = True
JOB_TIMEOUT = dict(quick=900, thorough=3000)
CLASSES = ['t', 'c', 'cx', 'tx', 'ct', 'ctx']

META = dict(
    explanation='The real count_max_designs, treatment_group_size_range, '
    'treatment_group_generator and control_group_generator executed '
    'concolically: the class-count vector (n_t, n_c, n_cx, n_tx, n_ct, n_ctx, '
    'n_x) is symbolic (solver-concretised, one sub-tree per multiset of '
    'eligibility rows), the size ranges are symbolic ints and the geo-ratio '
    'tolerance a symbolic real. Per path three numbers are proved equal: the '
    'fast count, the number of distinct (T, C) pairs listed by the real '
    'generators, and Sum_a If(legal(a),1,0) over all 3^N assignments with '
    'legal a z3 formula in the symbolic parameters; the generators list no '
    'pair twice; the exhaustive search evaluates (pushes) no more designs '
    'than the count; and a recount after the parameters were changed on the '
    'same object agrees too.',
    bounds=dict(
        quick='all row-type multisets with 1..3 admitted geos (+0..1 must-'
        'exclude geo for <= 2): parameter settings none, tsize, csize, '
        'gratio, tsize+csize, gratio+csize symbolic; 4 admitted geos: none, '
        'tsize, gratio; recount histories on 2..3 geos',
        thorough='1..4 admitted geos with every single / paired setting, '
        'tsize+csize+gratio for <= 3 geos; 5 admitted geos with single '
        'settings'),
    outside='more than 6 admitted geos; the response panel is a fixed flat '
    'family (the count does not depend on it)',
    stubs=['pandas.core.nanops._ensure_numeric pass-through'],
    assumptions=['floats modelled as exact reals; the geo ratio n_c/n_t is '
                 'the float the code forms, lifted exactly'],
)


def _panel(n):
  rng = np.random.default_rng(77)
  base = rng.normal(size=20).cumsum()
  series = [50.0 * (g + 1) + (g + 1) * 4.0 * base + rng.normal(size=20)
            for g in range(n)]
  return panels._frame(series)


def _legal_formula(rows, ids, a, sv):
  """z3 formula: assignment a (dict geo->'C'/'T'/'X') is a legal design."""
  T = [g for g in ids if a[g] == 'T']
  C = [g for g in ids if a[g] == 'C']
  if not T or not C:
    return None
  for g in ids:
    c, t, x = rows[g]
    if a[g] == 'T' and not t:
      return None
    if a[g] == 'C' and not c:
      return None
    if a[g] == 'X' and not x:
      return None
  terms = []
  nT, nC = len(T), len(C)
  if 'tsize' in sv:
    terms.append(z3.And(sv['tsize'][0] <= nT, nT <= sv['tsize'][1]))
  if 'csize' in sv:
    terms.append(z3.And(sv['csize'][0] <= nC, nC <= sv['csize'][1]))
  if 'gratio' in sv:
    r = F(nC / nT)
    terms.append(z3.And(r * (1 + sv['gratio']) >= 1, r <= 1 + sv['gratio']))
  return z3.And(*terms) if terms else z3.BoolVal(True)


def count_job(name, n_total, sym, first=None, twin=False, recount=False,
              max_s=800, with_x=True):
  symx.patch_pandas()
  M = search._imports()
  js = framework.JobStats(name)
  trace = symx.FunctionTrace(framework.REPO)
  e = symx.Engine()

  def fn():
    counts = {}
    remaining = n_total
    for i, c in enumerate(CLASSES):
      if first is not None and i < len(first):
        counts[c] = first[i]
      elif i == len(CLASSES) - 1:
        counts[c] = remaining
      else:
        counts[c] = symx.choose('n_' + c, 0, remaining)
      remaining -= counts[c]
      if remaining < 0:
        raise symx.PathAbort('count vector')
    n_x = symx.choose('n_x', 0, 1) if with_x else 0
    kinds = [c for c in CLASSES for _ in range(counts[c])] + ['x'] * n_x
    # interleave so that classes are not sorted by size
    order = list(range(len(kinds)))
    order = order[::2] + order[1::2]
    kinds = [kinds[i] for i in order]
    n = len(kinds)
    df = _panel(n)
    ctx = search.Ctx('flat%d' % n, df=df, n_test=5)
    ids = ctx.ids
    elig = {g: kinds[int(g)] for g in ids}
    par0 = ctx.M['par'].TBRMMDesignParameters(n_test=5, iroas=1.0,
                                               n_designs=10**6)
    sv = {}
    def install(par):
      N = n
      if 'tsize' in sym:
        a = symx.integer('ta', 1, N + 1)
        b = symx.integer('tb', 1, N + 1)
        eng().assume(a.e <= b.e)
        par.treatment_geos_range = (a, b)
        sv['tsize'] = (a.e, b.e)
      if 'csize' in sym:
        a = symx.integer('ca', 1, N + 1)
        b = symx.integer('cb', 1, N + 1)
        eng().assume(a.e <= b.e)
        par.control_geos_range = (a, b)
        sv['csize'] = (a.e, b.e)
      if 'gratio' in sym:
        v = symx.real('gt', 0, None)
        par.geo_ratio_tolerance = v
        sv['gratio'] = v.e
    if not recount:
      install(par0)
    ge, cells = search.make_elig(ctx, elig)
    data = M['data'].TBRMMData(df.copy(), 'sales', ge)
    mm = M['mm'].TBRMatchedMarkets(data, par0)
    first_count = None
    if recount:
      first_count = mm.count_max_designs()
      install(mm.parameters)
    count = mm.count_max_designs()
    listed = []
    for nt in mm.treatment_group_size_range():
      for T in mm.treatment_group_generator(nt):
        for C in mm.control_group_generator(T):
          listed.append((frozenset(T), frozenset(C)))
    gi = list(mm.data.geo_index)
    listed_ids = [(frozenset(gi[i] for i in T), frozenset(gi[i] for i in C))
                  for T, C in listed]
    rows = {g: search.ROW_TYPES[elig[g]] for g in ids}
    adm = [g for g in ids if rows[g] != (0, 0, 1)]
    total = z3.IntVal(0)
    member = []
    for combo in itertools.product('CTX', repeat=len(adm)):
      a = dict(zip(adm, combo))
      f = _legal_formula(rows, adm, a, sv)
      T = frozenset(g for g in adm if a[g] == 'T')
      C = frozenset(g for g in adm if a[g] == 'C')
      if f is None:
        member.append(((T, C), z3.BoolVal(False)))
        continue
      total = total + z3.If(f, 1, 0)
      member.append(((T, C), f))
    pushed = None
    if not sym or sym == ['gratio']:
      import copy
      hd = M['hd'].HeapDict
      orig = hd.push
      cnt = [0]
      def _push(self, key, item):
        cnt[0] += 1
        return orig(self, key, item)
      hd.push = _push
      try:
        with np.errstate(all='ignore'):
          mm.exhaustive_search()
      finally:
        hd.push = orig
      pushed = cnt[0]
    return dict(kinds=kinds, count=count, listed=listed_ids, total=total,
                member=member, pushed=pushed, sv=sv, first_count=first_count)

  def on_path(eng_, res):
    if res[0] == 'exc':
      ex = res[1]
      js.r['inconclusive'].append('exception on a path: %r' % (ex,))
      return
    r = res[1]
    js.r['nontrivial'] += 1
    listed = r['listed']
    obs = [('no-pair-listed-twice', len(set(listed)) == len(listed)),
           ('count==listed', r['count'] == len(set(listed))),
           ('count==sum-legal', z3.IntVal(int(r['count'])) == r['total'])]
    ls = set(listed)
    obs.append(('listed-iff-legal', z3.And(*[
        f if key in ls else z3.Not(f) for key, f in r['member']])))
    if r['pushed'] is not None:
      obs.append(('evaluated<=count', r['pushed'] <= r['count']))
    if twin:
      obs = [('twin', False)]
    for cname, f in obs:
      js.r['obligations'] += 1
      if isinstance(f, (bool, np.bool_)):
        verdict, model = ('unsat', None) if f else ('sat', eng_.witness())
      else:
        verdict, model = eng_.prove(f)
      if verdict == 'unsat':
        js.r['discharged'] += 1
        continue
      if verdict == 'unknown' or model is None:
        js.r['inconclusive'].append('solver unknown on %s' % cname)
        continue
      vals = {}
      for k, v in r['sv'].items():
        vals[k] = [int(symx.model_value(model, x)) for x in v] if isinstance(
            v, tuple) else float(symx.model_value(model, v))
      if len(js.r['violations']) < 20:
        js.r['violations'].append(dict(
            case=dict(kind='count', kinds=r['kinds'], params=vals,
                      recount=recount), twin=twin,
            detail=dict(clause=cname, count=r['count'], listed=len(listed))))
    if len(js.r['samples']) < 2:
      js.r['samples'].append(dict(rows=r['kinds'], symbolic=sym, count=r[
          'count'], listed=len(listed), recount=recount))

  trace.start()
  status = e.explore(fn, on_path, max_s=max_s)
  return js.finish(e, status, trace)


def _firsts(n):
  """Fix the counts of the first classes so that jobs stay small."""
  out = []
  for t in range(n + 1):
    for c in range(n + 1 - t):
      if n >= 3:
        for cx in range(n + 1 - t - c):
          out.append([t, c, cx])
      else:
        out.append([t, c])
  return out


def jobs(tier, seed):
  out = []
  nmax = 4 if tier == 'quick' else 5
  syms = [[], ['tsize'], ['csize'], ['gratio'], ['tsize', 'csize'],
          ['gratio', 'csize']]
  if tier == 'thorough':
    syms.append(['tsize', 'csize', 'gratio'])
  for n in range(1, nmax + 1):
    for sym in syms:
      if tier == 'quick' and n == 4 and sym not in ([], ['gratio'],
                                                    ['tsize']):
        continue          # the other settings on 4 admitted geos: thorough
      if tier == 'thorough' and n >= 5 and len(sym) > 1:
        continue
      if n >= 4 and len(sym) > 2:
        continue   # three symbolic settings on 4 geos: over the job budget
      firsts = _firsts(n) if n >= 3 else [None]
      for f in firsts:
        name = 'N%d-%s%s' % (n, '+'.join(sym) or 'none',
                             '' if f is None else '-t%s' % ''.join(map(str, f)))
        out.append(dict(func='count_job', name=name, weight=n * 10 + len(sym),
                        kwargs=dict(name=name, n_total=n, sym=sym, first=f,
                                    with_x=(n <= (2 if tier == 'quick' else 3)),
                                    max_s=2800 if tier == 'thorough' else 800),
                        timeout_s=3000 if tier == 'thorough' else 900))
    for sym in (['gratio'], ['csize'], ['tsize', 'gratio']):
      if n < 2 or n > (3 if tier == 'quick' else 4):
        continue
      for f in _firsts(n):
        name = 'N%d-%s-recount-t%s' % (n, '+'.join(sym), ''.join(map(str, f)))
        out.append(dict(func='count_job', name=name, weight=n * 10,
                        kwargs=dict(name=name, n_total=n, sym=sym, first=f,
                                    recount=True, with_x=False)))
  out.append(dict(func='count_job', name='twin', kwargs=dict(
      name='twin', n_total=2, sym=['tsize'], twin=True)))
  return out


def replay(case):
  M = search._imports()
  kinds = case['kinds']
  n = len(kinds)
  df = _panel(n)
  ctx = search.Ctx('flat%d' % n, df=df, n_test=5)
  elig = {g: kinds[int(g)] for g in ctx.ids}
  kw = dict(n_test=5, iroas=1.0, n_designs=10**6)
  p = case['params']
  extra = {}
  if 'tsize' in p:
    extra['treatment_geos_range'] = tuple(p['tsize'])
  if 'csize' in p:
    extra['control_geos_range'] = tuple(p['csize'])
  if 'gratio' in p:
    extra['geo_ratio_tolerance'] = p['gratio']
  ge, _ = search.make_elig(ctx, elig)
  data = M['data'].TBRMMData(df.copy(), 'sales', ge)
  if case.get('recount'):
    par = M['par'].TBRMMDesignParameters(**kw)
    mm = M['mm'].TBRMatchedMarkets(data, par)
    mm.count_max_designs()
    for k, v in extra.items():
      setattr(mm.parameters, k, v)
  else:
    par = M['par'].TBRMMDesignParameters(**dict(kw, **extra))
    mm = M['mm'].TBRMatchedMarkets(data, par)
  count = mm.count_max_designs()
  listed = []
  for nt in mm.treatment_group_size_range():
    for T in mm.treatment_group_generator(nt):
      for C in mm.control_group_generator(T):
        listed.append((frozenset(T), frozenset(C)))
  gi = list(mm.data.geo_index)
  rows = {g: search.ROW_TYPES[elig[g]] for g in ctx.ids}
  adm = [g for g in ctx.ids if rows[g] != (0, 0, 1)]
  brute = 0
  for combo in itertools.product('CTX', repeat=len(adm)):
    a = dict(zip(adm, combo))
    T = [g for g in adm if a[g] == 'T']
    C = [g for g in adm if a[g] == 'C']
    if not T or not C:
      continue
    if any((a[g] == 'T' and not rows[g][1]) or (a[g] == 'C' and not rows[g][0])
           or (a[g] == 'X' and not rows[g][2]) for g in adm):
      continue
    ok = True
    if 'tsize' in p:
      ok = ok and p['tsize'][0] <= len(T) <= p['tsize'][1]
    if 'csize' in p:
      ok = ok and p['csize'][0] <= len(C) <= p['csize'][1]
    if 'gratio' in p:
      r = len(C) / len(T)
      ok = ok and 1.0 / (1.0 + p['gratio']) <= r <= 1.0 + p['gratio']
    brute += ok
  bad = []
  if len(set(listed)) != len(listed):
    bad.append('pair-listed-twice')
  if count != len(set(listed)):
    bad.append('count!=listed')
  if count != brute:
    bad.append('count!=brute-force')
  if not bad:
    return dict(violates=False, detail='count=%d listed=%d brute=%d' % (
        count, len(listed), brute))
  return dict(violates=True, key='C11:' + ','.join(bad) + (
      ':recount' if case.get('recount') else ''),
              detail='rows=%s params=%s count=%d listed=%d distinct=%d '
              'brute=%d' % (kinds, p, count, len(listed), len(set(listed)),
                            brute))
