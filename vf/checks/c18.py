"""C18: pointwise and cumulative effect series are well-formed for any
experiment."""
import fractions

import numpy as np
import pandas as pd
import z3

from vf import framework
from vf import nstubs
from vf import symx
from vf.checks import c06
from vf.checks import c07
from vf.symx import F, SNum, eng

Fraction = fractions.Fraction
PID = 'C18'
HAS_TWIN = True
JOB_TIMEOUT = dict(quick=900, thorough=3000)

META = dict(
    explanation='The real TBRiROAS.estimate_pointwise_and_cumulative_effect '
    '(with the real TBR models, _is_fixed_cost_scenario and the real '
    'EstimatedTimeSeriesWithConfidenceInterval container) runs on a frame '
    'with cooldown whose test / cooldown response cells and test-period '
    'costs are z3 Reals, at listed concrete levels (the pre-period is a listed concrete, '
    'non-degenerate series, so sigma^2 and Sxx are constants). The '
    'container\'s two guards (lower > estimate, upper < estimate on any '
    'date) fork on their nonlinear conditions: every feasible path on which '
    'a guard fires is a concrete frame on which the report raises (model '
    'replayed on the real code). Identities proved by z3 on every returning '
    'path: counterfactual + '
    'pointwise difference = observed treatment series on every date; '
    'pre-period pointwise differences = regression residuals; last '
    'cumulative row = loc and the (1-level)/tails and 1-(1-level)/tails '
    'quantiles of the TBR posterior. Both metrics, fixed and variable cost '
    'layouts (incl. non-zero treatment pre-period cost with zero control '
    'cost), tails 1 and 2, and two successive calls with different tails on '
    'one fitted model.',
    bounds=dict(quick='(n_pre, n_test, cooldown) in {(3,1,1), (4,2,1)}; 3 '
                'cost layouts; tails sequences (1), (2), (1,2), (2,1); refit of '
                'one object on the other cost scenario; integer-dtype frames '
                'in the conformance job',
                thorough='adds (3,2,1), (5,2,2), (6,3,1)'),
    outside='pre-period cells are concrete (listed series; random frames '
    'only in the conformance job); n_pre > 6; more than 4 analysed days; '
    'calendar handling of '
    'pandas (dates are concrete consecutive days)',
    stubs=['as C07 (sm.OLS incl. rank-deficient cost regression, sp.stats.t, '
           'float_order)'],
    assumptions=['floats modelled as exact reals',
                 't quantile axioms: symmetry, monotonicity, sign'],
)


PRE_X = [3.0, -1.0, 4.0, 1.5, -2.5, 6.0]
PRE_Y = [5.5, -0.5, 8.0, 2.0, -4.0, 11.5]
PRE_CT = [2.0, 1.0, 3.5, 0.5, 4.0, 2.5]
PRE_CC = [1.5, 3.0, 1.0, 2.5, 0.5, 3.5]


def _pre_cells(n, days):
  """Pre-period response cells: a listed concrete non-degenerate series
  (sigma^2, Sxx are then constants and the container's guard conditions are
  low-degree polynomials); test / cooldown cells symbolic."""
  cells = {}
  for d in range(n):
    cells['x', d], cells['y', d] = PRE_X[d], PRE_Y[d]
  for d in range(n, n + days):
    cells['x', d] = symx.real('x%d' % d)
    cells['y', d] = symx.real('y%d' % d)
  return cells


def _pre_costs(n, T, layout):
  if layout == 'treatment-pre':
    return ([0.0] * n, PRE_CT[:n]), None
  if layout == 'variable':
    return (PRE_CC[:n], PRE_CT[:n]), {d: symx.real(
        'tc%d' % d, 0, None) for d in range(n, n + T)}
  return None, None


def effect_job(name, n, T, C, metric, layout, tails_seq, twin=False,
               max_s=800, level_c=0.8, refit=False):
  symx.patch_pandas()
  from matched_markets.methodology import common_classes as CC
  from matched_markets.methodology import tbr as TBRmod
  from matched_markets.methodology import tbr_iroas as IR
  from matched_markets.methodology import utils as U
  js = framework.JobStats(name)
  trace = symx.FunctionTrace(framework.REPO)
  e = symx.Engine()
  days = T + C
  guards = []

  def rec_any(a, *args, **kw):
    arr = np.asarray(a, dtype=object).ravel()
    conds = [v.e for v in arr if isinstance(v, symx.SBool)]
    conc = [bool(v) for v in arr if not isinstance(v, symx.SBool)]
    guards.append((conds, any(conc)))
    return any(conc)

  def fn():
    del guards[:]
    cells = _pre_cells(n, days)
    # a listed concrete level: quantiles are then the real scipy values, so
    # that models of raising paths are realistic frames
    level = level_c
    cost = {d: symx.real('c%d' % d, 0, None) for d in range(n, n + T)}
    pre, ctl = _pre_costs(n, T, layout)
    saved = c07._install(IR, TBRmod, U)
    cc_np = CC.np
    try:
      m = IR.TBRiROAS(use_cooldown=True)
      df = c07.frame(cells, cost, n, T, C, cost_pre=pre, cost_ctl=ctl)
      if refit:
        # the same object was fitted before on a frame of the other cost
        # scenario and asked for a report
        other = 'variable' if layout == 'fixed' else 'fixed'
        pre0, ctl0 = _pre_costs(n, T, other)
        ctl0 = {d: 1.5 for d in ctl0} if ctl0 else None
        cells0 = {k: (v if not isinstance(v, SNum) else 7.0 + 0.5 * k[1] + (
            2.0 if k[0] == 'y' else 0.0) * k[1]) for k, v in cells.items()}
        m.fit(c07.frame(cells0, {d: 2.0 for d in cost}, n, T, C,
                        cost_pre=pre0, cost_ctl=ctl0))
        try:
          m.estimate_pointwise_and_cumulative_effect('tbr_cost', level=0.8,
                                                     tails=2)
        except ValueError:
          pass
      m.fit(df)
      outs = []
      for tails in tails_seq:
        outs.append((tails, m.estimate_pointwise_and_cumulative_effect(
            metric, level=level, tails=tails), len(guards)))
      fixed = m._is_fixed_cost_scenario()
    finally:
      CC.np = cc_np
      c07._restore(IR, TBRmod, U, saved)
    return dict(cells=cells, level=level, cost=cost, pre=pre, ctl=ctl, m=m,
                outs=outs, guards=list(guards), fixed=fixed)

  def on_path(eng_, res):
    if res[0] == 'exc':
      ex = res[1]
      if isinstance(ex, ValueError) and 'bound is not' in str(ex):
        # the container's guard fired on a feasible path: the report raises
        js.r['obligations'] += 1
        js.r['nontrivial'] += 1
        model = eng_.witness(timeout_ms=60000)
        if model is None:
          # feasibility of this raising path was not settled by the solver
          # within the cap ('unknown' branches are explored as maybe-
          # feasible); every raising path belongs to the known-finding class
          js.r['extra']['guard_paths_unresolved'] = js.r['extra'].get(
              'guard_paths_unresolved', 0) + 1
          js.r['obligations'] -= 1
          return
        def val(t):
          if not z3.is_expr(t):
            return float(t)
          try:
            return float(symx.frac_of(model.eval(t, model_completion=True)))
          except Exception:  # pylint: disable=broad-except
            return 1.0
        cells = {}
        for d in range(n):
          cells['x', d], cells['y', d] = PRE_X[d], PRE_Y[d]
        for d in range(n, n + days):
          cells['x', d] = z3.Real('x%d' % d)
          cells['y', d] = z3.Real('y%d' % d)
        pre = ctl = None
        if layout == 'treatment-pre':
          pre = [[0.0] * n, PRE_CT[:n]]
        elif layout == 'variable':
          pre = [PRE_CC[:n], PRE_CT[:n]]
          ctl = {str(d): val(z3.Real('tc%d' % d)) for d in range(n, n + T)}
        if len(js.r['violations']) < 10:
          js.r['violations'].append(dict(case=dict(
              kind='effect', n=n, T=T, C=C, metric=metric, layout=layout,
              tails_seq=list(tails_seq), clause='report raises: ' + str(ex),
              cells={'%s,%s' % k: val(v) for k, v in cells.items()},
              cost={str(d): val(z3.Real('c%d' % d)) for d in range(n, n + T)},
              pre=pre, ctl=ctl, level=level_c), twin=twin,
                                         detail='report raises: %s' % ex))
        return
      js.r['inconclusive'].append('exception on the path: %r' % (res[1],))
      return
    o = res[1]
    js.r['nontrivial'] += 1
    cells, level = o['cells'], o['level']
    tails, ts, ng = o['outs'][-1]           # judge the last call
    g0 = o['outs'][-2][2] if len(o['outs']) > 1 else 0
    gl = o['guards'][g0:ng]
    obs = []
    ax = nstubs.tq_axioms()
    tol = F(Fraction(1, 10**9))

    def approx(u, v):
      # the pre-period is concrete, so sums over it carry float rounding
      # (e.g. residuals sum to 1e-15, not 0): identities hold up to 1e-9
      return z3.And(u - v <= tol, v - u <= tol)
    # observed treatment series of the metric
    if metric == 'tbr_response':
      treat = [cells['y', d] for d in range(n + days)]
      ctrl = [cells['x', d] for d in range(n + days)]
    else:
      pt = o['pre'][1] if o['pre'] else [0.0] * n
      pc = o['pre'][0] if o['pre'] else [0.0] * n
      treat = list(pt) + [o['cost'].get(d, 0.0) for d in range(n, n + days)]
      ctrl = list(pc) + [(o['ctl'] or {}).get(d, 0.0) for d in range(
          n, n + days)]
    shortcut = metric == 'tbr_cost' and layout == 'fixed'
    # the documented label: fixed only if pre-period and control test costs
    # are all zero
    obs.append(('scenario used by the report', bool(o['fixed']) == (
        layout == 'fixed'), {}))
    # guards: the report must not be able to raise
    cfd, pw, cum = ts.counterfactual, ts.pointwise_difference, (
        ts.cumulative_effect)
    obs.append(('series lengths', len(cfd) == n + days and len(pw) == n + days
                and len(cum) == days, {}))
    if len(cfd) == n + days and len(pw) == n + days:
      for d in range(n + days):
        s_ = cfd['estimate'].iloc[d] + pw['estimate'].iloc[d]
        obs.append(('counterfactual + pointwise = observed (day %d)' % d,
                    approx(nstubs.L(s_), nstubs.L(treat[d])), dict(
                        drop_sqrt=True)))
      if not shortcut:
        # residuals of the pre-period regression of treat on control
        mdl = (o['m'].tbr_response if metric == 'tbr_response' else
               o['m'].tbr_cost).pre_period_model
        for d in range(n):
          fit = mdl.params[0] + mdl.params[1] * ctrl[d]
          obs.append(('pre-period pointwise difference = residual (day %d)'
                      % d, approx(nstubs.L(pw['estimate'].iloc[d]), nstubs.L(
                          treat[d] - fit)), dict(drop_sqrt=True)))
      else:
        for d in range(n + days):
          obs.append(('fixed cost: counterfactual 0 (day %d)' % d, nstubs.L(
              cfd['estimate'].iloc[d]) == 0, dict(drop_sqrt=True)))
    if len(cum) == days and not shortcut:
      mobj = o['m'].tbr_response if metric == 'tbr_response' else (
          o['m'].tbr_cost)
      mdl = mobj.pre_period_model
      loc = nstubs.L(sum((treat[n + j] - (mdl.params[0] + mdl.params[1] *
                                          ctrl[n + j])) for j in range(days)))
      last = cum.iloc[-1]
      obs.append(('last cumulative estimate = incremental effect', approx(
          nstubs.L(last['estimate']), loc), dict(drop_sqrt=True)))
      import scipy.stats as ss
      alpha = (1 - level) / tails
      df_ = mdl.df_resid
      tql = [F(float(ss.t.ppf(alpha, df_)))]
      tqu = [F(float(ss.t.ppf(1 - alpha, df_)))]
      sq = nstubs.sqrt_vars(nstubs.L(last['lower']))
      ok = len(sq) >= 1
      if not ok:
        # the posterior scale is a concrete number here (concrete pre-period
        # and all-zero control cost): bounds = loc +- scale * quantile with
        # the scale recovered from the two bounds
        lo_, up_ = nstubs.L(last['lower']), nstubs.L(last['upper'])
        obs.append(('last cumulative bounds: same scale on both sides', approx(
            (lo_ - loc) * tqu[0], (up_ - loc) * tql[0]), dict(
                drop_sqrt=True)))
      if ok:
        s_last = sq[-1]
        obs.append(('last cumulative lower = posterior quantile', approx(
            nstubs.L(last['lower']), loc + s_last * tql[0]), dict(
                drop_sqrt=True)))
        obs.append(('last cumulative upper = posterior quantile', approx(
            nstubs.L(last['upper']), loc + s_last * tqu[0]), dict(
                drop_sqrt=True)))
    if len(cum) == days and shortcut:
      tot = sum(treat[n + j] for j in range(days))
      last = cum.iloc[-1]
      for col in ('estimate', 'lower', 'upper'):
        obs.append(('fixed cost: last cumulative %s = total cost' % col,
                    nstubs.L(last[col]) == nstubs.L(tot), dict(
                        drop_sqrt=True)))

    def case_fn(model, nm):
      case = dict(kind='effect', n=n, T=T, C=C, metric=metric, layout=layout,
                  tails_seq=list(tails_seq), clause=nm, refit=refit)
      if model is not None:
        def val(v):
          if not isinstance(v, SNum):
            return float(v)
          try:
            return float(symx.model_value(model, v))
          except Exception:  # pylint: disable=broad-except
            return 1.0
        case.update(cells={'%s,%s' % k: val(v) for k, v in cells.items()},
                    cost={str(k): val(v) for k, v in o['cost'].items()},
                    pre=[[val(v) for v in col] for col in o['pre']] if o[
                        'pre'] else None,
                    ctl={str(k): val(v) for k, v in o['ctl'].items()} if o[
                        'ctl'] else None, level=level_c)
      return case
    c07._run_obs(js, eng_, obs, twin, case_fn)
    if len(js.r['samples']) < 2:
      js.r['samples'].append(dict(shape=(n, T, C), metric=metric,
                                  layout=layout, tails_seq=list(tails_seq),
                                  obligations=len(obs)))

  trace.start()
  status = e.explore(fn, on_path, max_s=max_s)
  return js.finish(e, status, trace)


# ---- concrete oracle --------------------------------------------------------
def concrete_effect(n, T, C, metric, tails_seq, cells, cost, pre, ctl, level,
                    rtol=1e-6, refit=False):
  import scipy.stats as ss
  from matched_markets.methodology import tbr_iroas as IR
  days = T + C
  def close(u, v):
    return abs(float(u) - float(v)) <= rtol * max(1.0, abs(float(u)), abs(
        float(v)))
  df = c07.frame(cells, cost, n, T, C, cost_pre=pre, cost_ctl=ctl)
  m = IR.TBRiROAS(use_cooldown=True)
  if refit:
    # same object fitted before on a frame of the other cost scenario
    was_fixed = not pre and not ctl
    pre0 = None if not was_fixed else (PRE_CC[:n], PRE_CT[:n])
    ctl0 = None if not was_fixed else {d: 1.5 for d in range(n, n + T)}
    cells0 = {k: 7.0 + 0.5 * k[1] + (2.0 * k[1] if k[0] == 'y' else 0.0)
              for k in cells}
    m.fit(c07.frame(cells0, {d: 2.0 for d in cost}, n, T, C, cost_pre=pre0,
                    cost_ctl=ctl0))
    try:
      m.estimate_pointwise_and_cumulative_effect('tbr_cost', level=0.8,
                                                 tails=2)
    except ValueError:
      pass
  m.fit(df)
  out = None
  for tails in tails_seq:
    try:
      out = m.estimate_pointwise_and_cumulative_effect(metric, level=level,
                                                       tails=tails)
    except ValueError as ex:
      return ['raises:' + str(ex)[:60]]
  tails = tails_seq[-1]
  bad = []
  outside = sum(pre[0]) + sum(pre[1]) if pre else 0.0
  outside += sum(ctl.values()) if ctl else 0.0
  is_fixed = outside < 1e-10
  if bool(m._is_fixed_cost_scenario()) != is_fixed:
    bad.append('scenario')
  if metric == 'tbr_response':
    treat = [cells['y', d] for d in range(n + days)]
    ctrl = [cells['x', d] for d in range(n + days)]
  else:
    treat = list(pre[1] if pre else [0.0] * n) + [cost.get(d, 0.0) for d in
                                                  range(n, n + days)]
    ctrl = list(pre[0] if pre else [0.0] * n) + [(ctl or {}).get(d, 0.0)
                                                 for d in range(n, n + days)]
  cf_, pw, cum = out.counterfactual, out.pointwise_difference, (
      out.cumulative_effect)
  for name, ser in (('counterfactual', cf_), ('pointwise', pw), ('cumulative',
                                                                 cum)):
    if not ((ser['lower'] <= ser['estimate'] + 1e-9).all() and (
        ser['estimate'] <= ser['upper'] + 1e-9).all()):
      bad.append('ordering-' + name)
  for d in range(n + days):
    if not close(cf_['estimate'].iloc[d] + pw['estimate'].iloc[d], treat[d]):
      bad.append('counterfactual+pointwise')
  if metric == 'tbr_cost' and is_fixed:
    if not close(cum['estimate'].iloc[-1], sum(treat[n:])):
      bad.append('fixed-cost-cumulative')
    return sorted(set(bad))
  x, y = np.array(ctrl[:n]), np.array(treat[:n])
  if np.ptp(x) == 0:
    b_, a_ = 0.0, y.mean() / 1.0 if False else 0.0
    # rank-deficient: statsmodels pseudo-inverse, fitted value = mean(y) c/(1+c^2)...
    cst = x[0]
    beta = np.array([1.0, cst]) * y.mean() / (1 + cst * cst)
    fit = lambda v: beta[0] + beta[1] * v
    dfres = n - 1
    resid = y - fit(x)
    sig2 = (resid ** 2).sum() / dfres
    var_t = lambda t, mt: (np.array([1.0, mt]) @ (np.outer([1.0, cst], [
        1.0, cst]) / (n * (1 + cst * cst) ** 2)) @ np.array([1.0, mt])) * sig2
  else:
    xb, yb = x.mean(), y.mean()
    sxx = ((x - xb) ** 2).sum()
    b_ = ((x - xb) * (y - yb)).sum() / sxx
    a_ = yb - b_ * xb
    fit = lambda v: a_ + b_ * v
    dfres = n - 2
    resid = y - fit(x)
    sig2 = (resid ** 2).sum() / dfres
    var_t = lambda t, mt: sig2 * (1.0 / n + (mt - xb) ** 2 / sxx)
  for d in range(n):
    if not close(pw['estimate'].iloc[d], resid[d]):
      bad.append('pre-period-residuals')
  loc = sum(treat[n + j] - fit(ctrl[n + j]) for j in range(days))
  mt = np.mean(ctrl[n:n + days])
  scale = (days * sig2 + days * days * var_t(days, mt)) ** 0.5
  dist = ss.t(dfres, loc=loc, scale=scale)
  alpha = (1 - level) / tails
  last = cum.iloc[-1]
  if not close(last['estimate'], loc):
    bad.append('last-cumulative-estimate')
  if not close(last['lower'], dist.ppf(alpha)):
    bad.append('last-cumulative-lower')
  if not close(last['upper'], dist.ppf(1 - alpha)):
    bad.append('last-cumulative-upper')
  return sorted(set(bad))


def scale_shrinks(n, T, C, metric, cells, cost, pre, ctl):
  """Qualitative input class of the known finding: does the cumulative
  posterior scale of the metric shrink between two analysed days?"""
  days = T + C
  if metric == 'tbr_response':
    treat = [cells['y', d] for d in range(n + days)]
    ctrl = [cells['x', d] for d in range(n + days)]
  else:
    treat = list(pre[1] if pre else [0.0] * n) + [cost.get(d, 0.0) for d in
                                                  range(n, n + days)]
    ctrl = list(pre[0] if pre else [0.0] * n) + [(ctl or {}).get(d, 0.0)
                                                 for d in range(n, n + days)]
  x, y = np.array(ctrl[:n], float), np.array(treat[:n], float)
  if np.ptp(x) == 0:
    return False
  xb = x.mean()
  sxx = ((x - xb) ** 2).sum()
  prev = 0.0
  for t in range(1, days + 1):
    mt = float(np.mean(ctrl[n:n + t]))
    f = t + t * t * (1.0 / n + (mt - xb) ** 2 / sxx)
    if f < prev * (1 - 1e-12):
      return True
    prev = f
  return False


def conformance_job(name, seed=0):
  js = framework.JobStats(name)
  k = 0
  rng = np.random.default_rng(seed + 5)
  for (n, T, C) in [(6, 2, 1), (10, 3, 2)]:
    for metric in ('tbr_response', 'tbr_cost'):
      for layout in ('fixed', 'variable'):
        # increasing control series in the test period keeps the cumulative
        # posterior scale increasing (the known finding needs a decrease)
        cells = {}
        for d in range(n + T + C):
          xv = 10.0 + 0.5 * d + 0.1 * float(rng.normal())
          cells['x', d] = xv
          cells['y', d] = 4 + 1.7 * xv + 0.3 * float(rng.normal())
        cost = {d: 2.0 + 0.25 * d for d in range(n, n + T)}
        pre = ctl = None
        if layout == 'variable':
          pre = ([1.0 + 0.1 * d + 0.05 * float(rng.normal()) for d in
                  range(n)], [2.0 + 0.2 * d + 0.05 * float(rng.normal())
                              for d in range(n)])
          ctl = {d: 1.0 + 0.1 * d for d in range(n, n + T + C)}
        if layout == 'variable' and metric == 'tbr_response':
          # integer-valued columns (int64 dtype in the caller's frame)
          cells = {k: int(round(10 * v)) for k, v in cells.items()}
          cost = {d: int(round(10 * v)) for d, v in cost.items()}
          pre = ([int(round(10 * v)) for v in pre[0]], [int(round(10 * v))
                                                        for v in pre[1]])
          ctl = {d: int(round(10 * v)) for d, v in ctl.items()}
        for ts in ((1,), (2,), (1, 2)):
          bad = concrete_effect(n, T, C, metric, ts, cells, cost, pre, ctl,
                                0.8)
          js.r['obligations'] += 1
          k += 1
          if not bad:
            js.r['discharged'] += 1
          else:
            js.r['violations'].append(dict(case=dict(
                kind='effect', n=n, T=T, C=C, metric=metric, layout=layout,
                tails_seq=list(ts), clause='conformance', cells={
                    '%s,%s' % kk: v for kk, v in cells.items()}, cost={
                        str(d): v for d, v in cost.items()}, pre=[
                            list(pre[0]), list(pre[1])] if pre else None,
                ctl={str(d): v for d, v in ctl.items()} if ctl else None,
                level=0.8), detail='conformance %s' % bad))
  js.r['conformance'] = k
  js.r['paths'] = k
  js.r['forks'] = 1
  js.r['nontrivial'] = 1
  js.r['exhaustive'] = True
  js.r['samples'] = [dict(kind='conformance', frames=k)]
  return js.r


def jobs(tier, seed):
  out = []
  shapes = [(3, 1, 1), (4, 2, 1)]
  if tier == 'thorough':
    shapes += [(3, 2, 1), (5, 2, 2), (6, 3, 1)]
  for (n, T, C) in shapes:
    for metric, layouts in (('tbr_response', ['fixed']),
                            ('tbr_cost', ['fixed', 'treatment-pre',
                                          'variable'])):
      for layout in layouts:
        for ts in ((1,), (2,), (1, 2), (2, 1)):
          if (n, T, C) != (4, 2, 1) and len(ts) > 1:
            continue
          name = '%s-%s-n%d-T%d-C%d-tails%s' % (metric, layout, n, T, C,
                                                ''.join(map(str, ts)))
          out.append(dict(func='effect_job', name=name, weight=10 * n + T,
                          kwargs=dict(name=name, n=n, T=T, C=C, metric=metric,
                                      layout=layout, tails_seq=ts,
                                      level_c=[0.8, 0.9, 0.95][len(out) % 3],
                                      max_s=800 if tier == 'quick' else 3000),
                          timeout_s=900 if tier == 'quick' else 3300))
  for layout in ('fixed', 'variable'):
    name = 'tbr_cost-%s-refit-n3-T1-C1' % layout
    out.append(dict(func='effect_job', name=name, weight=40, kwargs=dict(
        name=name, n=3, T=1, C=1, metric='tbr_cost', layout=layout,
        tails_seq=(2,), refit=True)))
  out.append(dict(func='conformance_job', name='conformance', kwargs=dict(
      name='conformance', seed=seed)))
  out.append(dict(func='effect_job', name='twin', kwargs=dict(
      name='twin', n=3, T=1, C=1, metric='tbr_response', layout='fixed',
      tails_seq=(2,), twin=True)))
  return out


def replay(case):
  if case.get('cells') is None:
    return dict(violates=False, detail='structural clause without concrete '
                'witness: %s' % case.get('clause'))
  num = lambda v: v if isinstance(v, int) else float(v)   # keep int dtype
  cells = {tuple([kk.split(',')[0], int(kk.split(',')[1])]): num(v)
           for kk, v in case['cells'].items()}
  cost = {int(d): num(v) for d, v in case['cost'].items()}
  pre = case.get('pre')
  ctl = {int(d): num(v) for d, v in case['ctl'].items()} if case.get(
      'ctl') else None
  lvl = min(max(case['level'], 0.5), 1 - 1e-6)
  try:
    bad = concrete_effect(case['n'], case['T'], case['C'], case['metric'],
                          case['tails_seq'], cells, cost, pre, ctl, lvl,
                          refit=bool(case.get('refit')))
  except Exception as e:  # pylint: disable=broad-except
    return dict(violates=True, key='C18:exception:%s' % type(e).__name__,
                detail=repr(e))
  if not bad:
    return dict(violates=False, detail='report well-formed on the witness')
  other = [b for b in bad if not b.startswith(('raises:', 'ordering'))]
  if other:
    bad = other + [b for b in bad if b not in other]
  if bad[0].startswith('raises:') or bad[0].startswith('ordering'):
    # qualitative class of the input: does the cumulative posterior scale
    # shrink between analysed days?  (the known finding needs that)
    shrinks = scale_shrinks(case['n'], case['T'], case['C'], case['metric'],
                            cells, cost, pre, ctl)
    key = 'C18:%s:report-raises-or-disordered' % case['metric'] if shrinks \
        else 'C18:%s:report-raises-with-monotone-scale' % case['metric']
    return dict(violates=True, key=key, detail='%s on metric %s tails %s: %s'
                % (bad, case['metric'], case['tails_seq'], {
                    k: round(v, 3) for k, v in list(cells.items())[:12]}))
  return dict(violates=True, key='C18:%s:%s' % (case['metric'], bad[0]),
              detail='failing on the real code: %s' % bad)
