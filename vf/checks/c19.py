"""C19: post-analysis data screening removes exactly what it reports."""
import math
import random

import numpy as np
import pandas as pd
import z3

from vf import framework
from vf import symx
from vf.symx import SNum, eng

PID = 'C19'
HAS_TWIN = True
JOB_TIMEOUT = dict(quick=900, thorough=3000)

META = dict(
    explanation='The real TBRDiagnostics.fit / _detect_noisy_geos / '
    '_detect_outliers / _create_analysis_data / get_data / get_analysis_data '
    'run through the real pandas on a frame whose response cells are z3 '
    'Reals. The statistical detectors\' kernels (pearsonr, percentile, '
    'medcouple, exp, corrcoef, OLS studentized residuals) are contract stubs '
    'returning symbolic reals that are functions of the content of their '
    'arguments, so the solver enumerates every combination of flagged geos, '
    'outlier rounds and correlation-test outcomes the repo\'s own logic can '
    'reach. Per path: get_data() = input rows minus all rows of the reported '
    'noisy geos and of the reported outlier dates (cell identity), '
    'get_analysis_data() x / y = per-date control / treatment totals of that '
    'screened data (z3 identities over the symbolic cells), the caller\'s '
    'frame is untouched, ValueError iff a whole group was screened away, and '
    'a row-permuted copy of the frame gives the same reports.',
    bounds=dict(
        quick='5 geos (2 control, 2 treatment, 1 unassigned label) x 9 dates '
        '(6 pre, 3 test); at most 2 designated geos can be flagged, at most 2 '
        'designated dates can be outliers (any subset, any order of rounds); '
        'default and custom column names / group and period labels; frames '
        'with repeated row labels; 4-geo '
        'variant where a whole group can be screened away',
        thorough='3 flaggable geos, 3 candidate dates, 6 geos x 13 dates'),
    outside='whether the detectors flag the right geos / dates (statistical '
    'quality): their kernels are stubs; frames larger than the bound',
    stubs=['stats.pearsonr, np.percentile, medcouple, math.exp, np.corrcoef, '
           'smf.ols().fit(), OLSInfluence.get_resid_studentized_external, '
           'np.isnan (False on symbolic values): fresh symbolic reals keyed '
           'by a fingerprint of the argument content, ranges only',
           'pandas.core.nanops._ensure_numeric pass-through'],
    assumptions=['stub outputs are functions of argument content (so order '
                 'dependence can only come from the repo\'s own code)',
                 'floats modelled as exact reals'],
)

NAMES = [dict(),
         dict(key_geo='market', key_date='day', key_group='arm',
              key_period='phase', key_response='sales', group_control=10,
              group_treatment=20, period_pre=5, period_test=6)]


_FPV = {}


def _fp1(x):
  """Semantic fingerprint of a symbolic value: the term evaluated at a fixed
  pseudo-random rational point (equal polynomials -> equal fingerprints, so
  stub outputs are functions of content, not of syntax)."""
  if not isinstance(x, SNum):
    return repr(float(x))
  e = x.e
  sub = []
  for v in z3.z3util.get_vars(e):
    nm = str(v)
    if nm not in _FPV:
      _FPV[nm] = random.Random(nm).randint(1, 10**6)
    sub.append((v, z3.RealVal(_FPV[nm]) if v.is_real() else z3.IntVal(
        _FPV[nm])))
  return str(z3.simplify(z3.substitute(e, *sub))) if sub else str(
      z3.simplify(e))


def _fp(v):
  return tuple(_fp1(x) for x in np.asarray(v, dtype=object).ravel())


class Stubs:
  """Installs contract stubs in the module namespace of tbrdiagnostics."""

  def __init__(self, TD, flaggable, cand_dates):
    self.TD = TD
    self.table = {}
    self.flaggable = flaggable      # fingerprints decided at call time
    self.cand = cand_dates
    self.saved = {}

  def keyed(self, name, key, lo=None, hi=None):
    k = (name, key)
    if k not in self.table:
      self.table[k] = '%s_%d' % (name, len(self.table))
    r = z3.Real(self.table[k])
    if lo is not None:
      eng().assume(r >= lo)
    if hi is not None:
      eng().assume(r <= hi)
    return SNum(r)

  def install(self, geo_of_series):
    TD, st = self.TD, self
    ns = type('NP', (), dict(vars(np)))

    def _corrcoef(x, y):
      c = st.keyed('corr', (_fp(x), _fp(y)), -1, 1)
      return np.array([[1.0, c], [c, 1.0]], dtype=object)
    ns.corrcoef = staticmethod(_corrcoef)
    ns.percentile = staticmethod(lambda v, q: np.array(
        [st.keyed('pct', (_fp(v), qq)) for qq in q], dtype=object))
    ns.isnan = staticmethod(lambda v: False if isinstance(v, SNum)
                            else np.isnan(v))
    ns.sum = np.sum

    class _St:
      norm, beta, t = TD.stats.norm, TD.stats.beta, TD.stats.t

      @staticmethod
      def pearsonr(a, b):
        g = geo_of_series(a)
        if g in st.flaggable:
          return (st.keyed('pear', _fp(a), -1, 1), None)
        # never flagged: above any admissible threshold (<= 0.5)
        return (st.keyed('pear', _fp(a), 0.6, 1), None)
    exp_ = lambda v: (st.keyed('exp', _fp1(v), 0) if isinstance(v, SNum)
                      else math.exp(v))

    class _Infl:
      def __init__(self, fit):
        self.fit = fit

      def get_resid_studentized_external(self):
        out = []
        for d in self.fit.dates:
          if d in st.cand:
            out.append(st.keyed('sres', (self.fit.key, str(d))))
          else:
            out.append(0.0)
        return np.array(out, dtype=object)

    class _Fit:
      def __init__(self, data):
        self.dates = list(data.index)
        self.key = (_fp(data['x']), _fp(data['y']))

    class _Smf:
      @staticmethod
      def ols(formula, data):
        class _M:
          def fit(self_):
            return _Fit(data)
        return _M()
    self.saved = dict(np=TD.np, stats=TD.stats, medcouple=TD.medcouple,
                      math=TD.math, smf=TD.smf, OLSInfluence=TD.OLSInfluence)
    TD.np = ns
    TD.stats = _St
    TD.medcouple = lambda v, axis=None: st.keyed('mc', _fp(v), -1, 1)
    TD.math = type('M', (), dict(exp=staticmethod(exp_)))
    TD.smf = _Smf
    TD.OLSInfluence = _Infl

  def restore(self):
    for k, v in self.saved.items():
      setattr(self.TD, k, v)


def build_frame(groups, n_dates, n_pre, cells, names, shuffle=0,
                dup_index=False):
  kw = NAMES[names]
  col = lambda k, dflt: kw.get('key_' + k, dflt)
  lab_c, lab_t = kw.get('group_control', 1), kw.get('group_treatment', 2)
  p_pre, p_test = kw.get('period_pre', 0), kw.get('period_test', 1)
  dates = pd.date_range('2020-01-29', periods=n_dates)
  rows = []
  for g, grp in enumerate(groups):
    lab = {'c': lab_c, 't': lab_t, 'u': -1 if not kw else 99}[grp]
    for d in range(n_dates):
      rows.append({col('date', 'date'): dates[d], col('geo', 'geo'): g,
                   col('group', 'group'): lab,
                   col('period', 'period'): p_pre if d < n_pre else p_test,
                   col('response', 'response'): cells[g, d]})
  if shuffle:
    random.Random(shuffle).shuffle(rows)
  df = pd.DataFrame(rows)
  if dup_index:
    # the caller's frame carries repeated row labels (e.g. per-geo frames
    # concatenated without ignore_index)
    df.index = [i % n_dates for i in range(len(df))]
  return df, dates, kw


def run_fit(TD, df, kw):
  td = TD.TBRDiagnostics()
  td.fit(df, **kw)
  return td


def screen_job(name, groups, flaggable, cand, names=0, twin=False,
               n_dates=9, n_pre=6, max_s=800, dup_index=False):
  symx.patch_pandas()
  from matched_markets.methodology import tbrdiagnostics as TD
  js = framework.JobStats(name)
  trace = symx.FunctionTrace(framework.REPO)
  e = symx.Engine()

  def fn():
    cells = {(g, d): symx.real('r_%d_%d' % (g, d)) for g in range(len(groups))
             for d in range(n_dates)}
    df, dates, kw = build_frame(groups, n_dates, n_pre, cells, names,
                                dup_index=dup_index)
    df2, _, _ = build_frame(groups, n_dates, n_pre, cells, names, shuffle=7,
                            dup_index=dup_index)
    rcol = kw.get('key_response', 'response')
    gcol, dcol = kw.get('key_geo', 'geo'), kw.get('key_date', 'date')
    # pre-period series fingerprint -> geo (for the pearsonr stub)
    fp_geo = {}
    for g in range(len(groups)):
      fp_geo[_fp([cells[g, d] for d in range(n_pre)])] = g
    st = Stubs(TD, set(flaggable), set(dates[i] for i in cand))
    st.install(lambda a: fp_geo.get(_fp(a)))
    snapshot = df.copy()
    try:
      outs = []
      for frame in (df, df2):
        try:
          td = run_fit(TD, frame, kw)
          outs.append(('ok', td))
        except ValueError as ex:
          outs.append(('ValueError', str(ex)))
    finally:
      st.restore()
    obs = []
    same_in = df.equals(snapshot) if False else (
        list(df.columns) == list(snapshot.columns) and len(df) == len(
            snapshot) and all(a is b for a, b in zip(df[rcol], snapshot[
                rcol])) and df[gcol].equals(snapshot[gcol]))
    obs.append(('caller-frame-unchanged', same_in))
    kind1, td1 = outs[0]
    kind2, td2 = outs[1]
    obs.append(('permutation-same-outcome-kind', kind1 == kind2))
    info = dict(outcome=kind1, message=td1 if kind1 != 'ok' else None)
    if kind1 == 'ok':
      res = td1.get_test_results()
      noisy = list(res['noisy_geos'] or [])
      outl = list(res['outlier_dates'] or [])
      info.update(noisy=[int(g) for g in noisy], outliers=[str(d)[:10] for d in
                                                            outl])
      got = td1.get_data()
      want_keys = {(g, dates[d]) for g in range(len(groups)) for d in range(
          n_dates) if g not in noisy and dates[d] not in outl}
      got_keys = list(zip(got[gcol], got[dcol]))
      obs.append(('screened-rows', len(got_keys) == len(set(got_keys)) and set(
          got_keys) == want_keys))
      dmap = {dates[d]: d for d in range(n_dates)}
      obs.append(('screened-cells', all(v is cells[g, dmap[dt]] for g, dt, v in
                                        zip(got[gcol], got[dcol], got[rcol]))))
      ad = td1.get_analysis_data()
      keep_dates = [dates[d] for d in range(n_dates) if dates[d] not in outl]
      obs.append(('analysis-dates', list(ad.index) == keep_dates))
      if list(ad.index) == keep_dates:
        for dt in keep_dates:
          d = dmap[dt]
          for colname, grp in (('x', 'c'), ('y', 't')):
            tot = sum(cells[g, d] for g in range(len(groups))
                      if groups[g] == grp and g not in noisy)
            v = ad.loc[dt, colname]
            r = (v == tot)
            obs.append(('analysis-totals', r.e if isinstance(
                r, symx.SBool) else bool(r)))
      # both groups present in the screened data
      left = {groups[g] for g in range(len(groups)) if g not in noisy}
      obs.append(('both-groups-present', 'c' in left and 't' in left))
      if kind2 == 'ok':
        res2 = td2.get_test_results()
        obs.append(('permutation-same-reports', sorted(map(str, res2[
            'noisy_geos'] or [])) == sorted(map(str, noisy)) and sorted(map(
                str, res2['outlier_dates'])) == sorted(map(str, outl)) and
                    bool(res2['corr_test']) == bool(res['corr_test'])))
        g2 = td2.get_data()
        obs.append(('permutation-same-data', set(zip(g2[gcol], g2[dcol])) ==
                    set(got_keys)))
    else:
      info['noisy_hint'] = list(flaggable)
      # ValueError is legitimate only when a whole group was screened away:
      # cannot observe the reported geos then; check through the stub table
      obs.append(('valueerror-only-if-group-gone', any(
          all(g in flaggable for g in range(len(groups)) if groups[g] == grp)
          for grp in ('c', 't'))))
    return obs, cells, info

  def on_path(eng_, res):
    if res[0] == 'exc':
      js.r['obligations'] += 1
      w = eng_.witness()
      js.r['violations'].append(dict(case=dict(
          kind='screen', groups=groups, names=names, cells=None,
          note=repr(res[1]), dup_index=dup_index, info=dict(
              noisy=list(flaggable), outliers=['?'] * len(cand))), twin=twin,
                                     detail='exception %r' % (res[1],)))
      return
    obs, cells, info = res[1]
    js.r['nontrivial'] += 1
    for nm, f in obs:
      js.r['obligations'] += 1
      if twin:
        f = False
      if isinstance(f, (bool, np.bool_)):
        verdict, model = ('unsat', None) if f else ('sat', eng_.witness())
      else:
        verdict, model = eng_.prove(f)
      if verdict == 'unsat':
        js.r['discharged'] += 1
      elif verdict == 'unknown' or model is None:
        js.r['inconclusive'].append('solver unknown on %s' % nm)
      elif len(js.r['violations']) < 20:
        js.r['violations'].append(dict(case=dict(
            kind='screen', groups=groups, names=names, info=info,
            n_dates=n_dates, n_pre=n_pre, dup_index=dup_index), twin=twin,
                                       detail='%s %s' % (nm, info)))
    if len(js.r['samples']) < 3:
      js.r['samples'].append(dict(groups=groups, names=names, **info))

  trace.start()
  status = e.explore(fn, on_path, max_s=max_s)
  return js.finish(e, status, trace)


def jobs(tier, seed):
  out = []
  G5 = ['c', 't', 'c', 't', 'u']
  for names in (0, 1):
    for fl in ([1, 2], [0, 3], [4, 1], []):
      for cand in ([1, 7], [5], []):
        name = 'g5-names%d-flag%s-dates%s' % (names, ''.join(map(str, fl)),
                                              ''.join(map(str, cand)))
        out.append(dict(func='screen_job', name=name, kwargs=dict(
            name=name, groups=G5, flaggable=fl, cand=cand, names=names,
            max_s=800 if tier == 'quick' else 3000),
                        timeout_s=900 if tier == 'quick' else 3300))
  for fl in ([1, 2], [4, 1]):
    name = 'g5-dupindex-flag%s' % ''.join(map(str, fl))
    out.append(dict(func='screen_job', name=name, kwargs=dict(
        name=name, groups=G5, flaggable=fl, cand=[5], names=0,
        dup_index=True)))
  # a whole group can be screened away
  name = 'g4-group-can-vanish'
  out.append(dict(func='screen_job', name=name, kwargs=dict(
      name=name, groups=['c', 't', 'c', 'c'], flaggable=[1], cand=[7])))
  if tier == 'thorough':
    G6 = ['c', 't', 'c', 't', 'u', 't']
    for fl in ([1, 2, 5], [0, 3, 4]):
      for cand in ([1, 3, 7], [2, 8]):
        name = 'g6-flag%s-dates%s' % (''.join(map(str, fl)), ''.join(map(
            str, cand)))
        out.append(dict(func='screen_job', name=name, weight=50, kwargs=dict(
            name=name, groups=G6, flaggable=fl, cand=cand, max_s=3000,
            n_dates=13, n_pre=9),
                        timeout_s=3300))
  out.append(dict(func='screen_job', name='twin', kwargs=dict(
      name='twin', groups=G5, flaggable=[], cand=[], twin=True)))
  return out


# ---- concrete replay: plant the reported pattern in real data --------------
def replay(case):
  """Real detectors (no stubs): plant noisy geos / outlier dates so that the
  real statistics report a pattern of the same kind, then evaluate the same
  clauses concretely."""
  from matched_markets.methodology import tbrdiagnostics as TD
  base_groups, names = case['groups'], case['names']
  info = case.get('info') or {}
  want_noisy = info.get('noisy') or info.get('noisy_hint') or []
  want_out = len(info.get('outliers') or [])
  groups = list(base_groups) * 3       # enough geos for the real detectors
  n_dates, n_pre = 60, 45
  kinds = set()
  for seed in range(6):
    rng = np.random.default_rng(seed)
    base = rng.normal(size=n_dates).cumsum()
    cells = {}
    for g in range(len(groups)):
      s = 50.0 * (g + 1) + (g + 1) * 2.0 * base + 0.5 * rng.normal(
          size=n_dates)
      if g in want_noisy:
        s = 50.0 * (g + 1) + 15.0 * rng.normal(size=n_dates)
      for d in range(n_dates):
        cells[g, d] = float(s[d])
    tg = [g for g in range(len(groups)) if groups[g] == 't' and g not in
          want_noisy]
    for j in range(want_out):
      if tg:
        cells[tg[0], 50 - 9 * j] += 120.0
    df, dates, kw = build_frame(groups, n_dates, n_pre, cells, names,
                                dup_index=bool(case.get('dup_index')))
    snap = df.copy()
    try:
      td = run_fit(TD, df, kw)
    except ValueError as ex:
      # legitimate only if a whole group can have been screened away; here
      # only the planted geos are noisy and both groups keep clean geos
      left = {groups[g] for g in range(len(groups)) if g not in want_noisy}
      if 'c' in left and 't' in left:
        return dict(violates=True, key='C19:valueerror-with-both-groups-left',
                    detail='fit raised %s although both groups keep clean '
                    'geos (planted noisy geos %s, seed %d)' % (
                        ex, want_noisy, seed))
      continue
    except Exception as e:  # pylint: disable=broad-except
      return dict(violates=True, key='C19:exception:%s' % type(e).__name__,
                  detail=repr(e))
    bad = concrete_clauses(td, df, snap, dates, groups, cells, kw)
    res = td.get_test_results()
    kinds.add((bool(res['noisy_geos']), bool(res['outlier_dates'])))
    if bad:
      return dict(violates=True, key='C19:' + bad[0], detail='%s with noisy '
                  'geos %s, outlier dates %s (planted frame, seed %d)' % (
                      bad, res['noisy_geos'], [str(d)[:10] for d in res[
                          'outlier_dates']], seed))
  return dict(violates=False, detail='clauses hold on planted frames; report '
              'kinds reached (noisy, outliers): %s' % sorted(kinds))


def concrete_clauses(td, df, snap, dates, groups, cells, kw):
  rcol = kw.get('key_response', 'response')
  gcol, dcol = kw.get('key_geo', 'geo'), kw.get('key_date', 'date')
  res = td.get_test_results()
  noisy = list(res['noisy_geos'] or [])
  outl = list(res['outlier_dates'] or [])
  bad = []
  if not df.equals(snap):
    bad.append('caller-frame-modified')
  got = td.get_data()
  n_dates = len(dates)
  want = {(g, dates[d]) for g in range(len(groups)) for d in range(n_dates)
          if g not in noisy and dates[d] not in outl}
  keys = list(zip(got[gcol], got[dcol]))
  if set(keys) != want or len(keys) != len(set(keys)):
    bad.append('screened-rows')
  ad = td.get_analysis_data()
  dmap = {dates[d]: d for d in range(n_dates)}
  keep = [dates[d] for d in range(n_dates) if dates[d] not in outl]
  if list(ad.index) != keep:
    bad.append('analysis-dates')
  else:
    for dt in keep:
      for colname, grp in (('x', 'c'), ('y', 't')):
        tot = sum(cells[g, dmap[dt]] for g in range(len(groups))
                  if groups[g] == grp and g not in noisy)
        if abs(float(ad.loc[dt, colname]) - tot) > 1e-6 * max(1, abs(tot)):
          bad.append('analysis-totals')
  return sorted(set(bad))
