"""C16: eligibility tables are validated and partitioned correctly."""
import itertools

import pandas as pd
import z3

from vf import crosshair_run
from vf import framework
from vf import symx
from vf.symx import eng

PID = 'C16'
HAS_TWIN = True
JOB_TIMEOUT = dict(quick=900, thorough=3000)

META = dict(
    engine='symx + crosshair',
    technique='symx concolic execution of the real GeoEligibility through the '
    'real pandas with table cells as z3 terms; CrossHair on the real '
    'GeoAssignments with symbolic sets',
    explanation='Validation: the real GeoEligibility.__init__ runs on a table '
    'whose cells are z3 Ints in {0,1,2} (one cell optionally a symbolic '
    'quarter-integer in [0,2], i.e. non-integral entries), over all column-'
    'set variants (missing / duplicated / extra column, geo as index, '
    'duplicated IDs, int IDs) chosen by the solver; per path accepted <=> the '
    'documented predicate, otherwise ValueError and no other exception type. '
    'Selection: for every accepted table every ordered subset of its geos '
    '(solver-chosen subset and permutation) is passed to the real '
    'get_eligible_assignments with and without indices; the seven classes '
    'must partition the subset, each geo/position must sit in the class its '
    'row encodes. Partition algebra: CrossHair on the real GeoAssignments '
    'with arbitrary int sets and a generic element.',
    bounds=dict(
        quick='N=2 rows: all 3^6 integer tables x 8 column variants; one '
        'fractional cell x 3^5; all ordered subsets; CrossHair sets of <= 3 '
        'elements',
        thorough='N=3 rows: all 3^9 integer tables (variant 0), N=2 for the '
        'other variants'),
    outside='tables with more than 3 rows; cell values outside {0,1,2} and '
    'quarter-integers in [0,2]; non-numeric cells are listed concrete '
    'variants only',
    stubs=['pandas.core.nanops._ensure_numeric pass-through'],
    assumptions=['object-dtype pandas paths compute the same function as the '
                 'int64 paths (validated by replay)'],
)

VARIANTS = ['plain', 'geo_index', 'int_ids', 'missing_control',
            'missing_geo', 'dup_column', 'extra_column', 'dup_ids',
            'dup_ids_mixed_type', 'string_cell']


def build(variant, ids, cells):
  """cells[i] = (c, t, x) for row i."""
  gid = [int(g) for g in ids] if variant == 'int_ids' else list(ids)
  if variant == 'dup_ids':
    gid = [gid[0]] * len(gid)
  if variant == 'dup_ids_mixed_type':
    gid = [501, '501'] + gid[2:]     # same ID once as int, once as str
  df = pd.DataFrame(dict(geo=gid, control=[r[0] for r in cells],
                         treatment=[r[1] for r in cells],
                         exclude=[r[2] for r in cells]))
  if variant == 'geo_index':
    df = df.set_index('geo')
  elif variant == 'missing_control':
    df = df.drop(columns=['control'])
  elif variant == 'missing_geo':
    df = df.drop(columns=['geo'])
  elif variant == 'dup_column':
    df = pd.concat([df, df[['treatment']]], axis=1)
  elif variant == 'extra_column':
    df['note'] = 'n'
  elif variant == 'string_cell':
    df['control'] = df['control'].astype(object)
    df.loc[0, 'control'] = 'yes'
  return df


def well_formed(variant, n):
  if variant in ('missing_control', 'missing_geo', 'dup_column',
                 'string_cell'):
    return False
  if variant in ('dup_ids', 'dup_ids_mixed_type') and n > 1:
    return False
  return True


def table_job(name, n, variant, frac=False, twin=False, max_s=800,
              first_row=None):
  symx.patch_pandas()
  from matched_markets.methodology.geoeligibility import GeoEligibility
  js = framework.JobStats(name)
  trace = symx.FunctionTrace(framework.REPO)
  e = symx.Engine()
  ids = ['g%d' % i if variant != 'int_ids' else str(10 * (n - i)) for i in
         range(n)]

  def fn():
    cells = []
    for i in range(n):
      row = []
      for j, c in enumerate('ctx'):
        if frac and i == 0 and j == 0:
          q = symx.integer('q', 0, 8)
          row.append(symx.SNum(z3.ToReal(q.e) / 4))
        else:
          v = symx.integer('e_%d_%s' % (i, c), 0, 2)
          if first_row is not None and i == 0:
            eng().assume(v.e == first_row[j])
          row.append(v)
      cells.append(tuple(row))
    df = build(variant, ids, cells)
    snapshot = df.copy()
    try:
      ge = GeoEligibility(df)
      outcome = 'accepted'
    except ValueError:
      ge, outcome = None, 'ValueError'
    vals = [tuple(eng().concretize(v.e) for v in row) for row in cells]
    legal = well_formed(variant, n) and all(
        v in (0, 1) for r in vals for v in r) and all(sum(r) > 0 for r in vals)
    bad = []
    if (outcome == 'accepted') != legal:
      bad.append('table %s although the documented predicate says %s' % (
          outcome, 'accept' if legal else 'reject'))
    if outcome == 'accepted' and legal:
      if list(ge.data.index) != [str(g) for g in (
          [int(x) for x in ids] if variant == 'int_ids' else ids)]:
        bad.append('data index %s' % list(ge.data.index))
      # every ordered subset, chosen by the solver
      k = symx.choose('k', 0, n)
      order = []
      pool = list(range(n))
      for j in range(k):
        pick = symx.choose('pick%d' % j, 0, len(pool) - 1)
        order.append(pool.pop(pick))
      sub = [str(ge.data.index[i]) for i in order]
      rows = {str(ge.data.index[i]): tuple(int(v) for v in vals[i])
              for i in range(n)}
      for indices in (False, True):
        if indices and not sub:
          try:
            ge.get_eligible_assignments(sub or None, indices=True)
            bad.append('indices=True without geos did not raise')
          except ValueError:
            pass
          continue
        a = ge.get_eligible_assignments(sub if sub else None, indices=indices)
        members = sub if sub else [str(g) for g in ge.data.index]
        for pos, g in enumerate(members):
          ref = pos if indices else g
          r = rows[g]
          want = {'c_fixed': (1, 0, 0), 't_fixed': (0, 1, 0),
                  'x_fixed': (0, 0, 1), 'ct': (1, 1, 0), 'cx': (1, 0, 1),
                  'tx': (0, 1, 1), 'ctx': (1, 1, 1)}
          inn = [cl for cl in want if ref in getattr(a, cl)]
          exp = [cl for cl, rr in want.items() if rr == r]
          if inn != exp:
            bad.append('order %s indices=%s: %r in classes %s, row %s says '
                       '%s' % (sub, indices, ref, inn, r, exp))
          if ((ref in a.c) != (r[0] == 1) or (ref in a.t) != (r[1] == 1) or
              (ref in a.x) != (r[2] == 1)):
            bad.append('order %s indices=%s: c/t/x membership of %r' % (
                sub, indices, ref))
        allset = set(range(len(members))) if indices else set(members)
        if a.all != allset:
          bad.append('order %s indices=%s: all=%s' % (sub, indices, a.all))
      # the caller's frame is left alone
    return outcome, vals, bad

  def on_path(eng_, res):
    js.r['obligations'] += 1
    js.r['nontrivial'] += 1
    if res[0] == 'exc':
      bad = ['exception other than ValueError: %r' % (res[1],)]
      vals = None
    else:
      outcome, vals, bad = res[1]
    if twin:
      bad = ['twin']
    if not bad:
      js.r['discharged'] += 1
    elif len(js.r['violations']) < 30:
      w = eng_.witness()
      cellv = vals
      if cellv is None and w is not None:
        cellv = [[float(symx.model_value(w, z3.Int('e_%d_%s' % (i, c))))
                  for c in 'ctx'] for i in range(n)]
      picks = {}
      if w is not None:
        for d in w.decls():
          if d.name().startswith(('k', 'pick')):
            picks[d.name()] = w[d].as_long()
      js.r['violations'].append(dict(
          case=dict(kind='table', n=n, variant=variant, cells=[
              [float(v) for v in r] for r in cellv] if cellv else None,
                    picks=picks), twin=twin, detail=bad[:2]))
    if len(js.r['samples']) < 2 and res[0] == 'ok':
      js.r['samples'].append(dict(variant=variant, cells=[[float(v) for v in r]
                                                          for r in vals],
                                  outcome=res[1][0]))

  trace.start()
  status = e.explore(fn, on_path, max_s=max_s)
  return js.finish(e, status, trace)


def ch(**kw):
  return crosshair_run.ch_job(**kw)


def jobs(tier, seed):
  out = []
  for c in ('partition',):
    out.append(dict(func='ch', name='ch-' + c, weight=50, kwargs=dict(
        name='ch-' + c, target='vf.ch.c16.' + c, timeout_s=300),
                    timeout_s=1500))
  for v in VARIANTS:
    for r0 in itertools.product(range(3), repeat=3):
      if v not in ('plain', 'geo_index', 'int_ids') and r0 != (0, 0, 0):
        continue
      fr = r0 if v in ('plain', 'geo_index', 'int_ids') else None
      name = 'N2-%s-%s' % (v, ''.join(map(str, r0)) if fr else 'all')
      out.append(dict(func='table_job', name=name, kwargs=dict(
          name=name, n=2, variant=v, first_row=fr)))
  out.append(dict(func='table_job', name='N2-frac', weight=30, kwargs=dict(
      name='N2-frac', n=2, variant='plain', frac=True)))
  out.append(dict(func='table_job', name='N1-plain', kwargs=dict(
      name='N1-plain', n=1, variant='plain')))
  out.append(dict(func='table_job', name='N1-frac', kwargs=dict(
      name='N1-frac', n=1, variant='plain', frac=True)))
  if tier == 'thorough':
    for r0 in itertools.product(range(3), repeat=3):
      name = 'N3-plain-%s' % ''.join(map(str, r0))
      out.append(dict(func='table_job', name=name, weight=40, kwargs=dict(
          name=name, n=3, variant='plain', first_row=r0, max_s=3000),
                      timeout_s=3300))
    out.append(dict(func='table_job', name='N3-frac-111', weight=40,
                    kwargs=dict(name='N3-frac', n=3, variant='geo_index',
                                frac=True, max_s=3000), timeout_s=3300))
  out.append(dict(func='table_job', name='twin', kwargs=dict(
      name='twin', n=1, variant='plain', twin=True)))
  return out


def replay(case):
  if case.get('kind') == 'crosshair':
    return crosshair_run.replay_call(case, PID)
  from matched_markets.methodology.geoeligibility import GeoEligibility
  n, variant = case['n'], case['variant']
  if case['cells'] is None:
    return dict(violates=False, detail='no concrete table')
  cells = [tuple(int(v) if float(v).is_integer() else float(v) for v in r)
           for r in case['cells']]
  ids = ['g%d' % i if variant != 'int_ids' else str(10 * (n - i)) for i in
         range(n)]
  df = build(variant, ids, cells)
  legal = well_formed(variant, n) and all(
      v in (0, 1) for r in cells for v in r) and all(sum(r) > 0 for r in cells)
  try:
    ge = GeoEligibility(df)
    outcome = 'accepted'
  except ValueError:
    outcome = 'ValueError'
  except Exception as e:  # pylint: disable=broad-except
    return dict(violates=True, key='C16:validation:%s' % type(e).__name__,
                detail='%s table %s raised %r' % (variant, cells, e))
  if (outcome == 'accepted') != legal:
    return dict(violates=True, key='C16:validation:%s' % outcome,
                detail='%s table %s: %s, documented predicate says %s' % (
                    variant, cells, outcome, 'accept' if legal else 'reject'))
  if outcome != 'accepted':
    return dict(violates=False, detail='rejected as documented')
  picks = case.get('picks') or {}
  k = picks.get('k', n)
  pool = list(range(n))
  order = []
  for j in range(k):
    order.append(pool.pop(min(picks.get('pick%d' % j, 0), len(pool) - 1)))
  orders = [order] + [list(p) for r in range(1, n + 1) for p in
                      itertools.permutations(range(n), r)]
  rows = {str(ge.data.index[i]): tuple(cells[i]) for i in range(n)}
  want = {'c_fixed': (1, 0, 0), 't_fixed': (0, 1, 0), 'x_fixed': (0, 0, 1),
          'ct': (1, 1, 0), 'cx': (1, 0, 1), 'tx': (0, 1, 1), 'ctx': (1, 1, 1)}
  for od in orders:
    sub = [str(ge.data.index[i]) for i in od]
    if not sub:
      continue
    for indices in (False, True):
      a = ge.get_eligible_assignments(sub, indices=indices)
      for pos, g in enumerate(sub):
        ref = pos if indices else g
        inn = [cl for cl in want if ref in getattr(a, cl)]
        exp = [cl for cl, rr in want.items() if rr == rows[g]]
        if inn != exp:
          return dict(violates=True, key='C16:selection:%s' % (
              'indices' if indices else 'ids'),
                      detail='table %s order %s indices=%s: %r in %s, row '
                      'says %s' % (cells, sub, indices, ref, inn, exp))
  return dict(violates=False, detail='selection as documented')
