"""C12: search results are invariant to how the input is presented."""
import random

import numpy as np
import pandas as pd
import z3

from vf import framework
from vf import search
from vf import symx
from vf.symx import F, eng

PID = 'C12'
HAS_TWIN = True
JOB_TIMEOUT = dict(quick=1200, thorough=3400)

META = dict(
    explanation='Paired execution inside one symbolic path: the real search '
    'runs on the original input and on a transformed presentation of it '
    '(rows shuffled, dates shifted, geo IDs int<->str, geos renamed through '
    'a bijection that reverses lexicographic order with the eligibility '
    'table renamed alike, responses x 2^k with the budget range x 2^k) under '
    'the same z3 parameter variables. Because both runs share the path '
    'condition, any branch the second run takes differently is itself a '
    'feasible path and shows up as a mismatch: designs must be equal up to '
    'the renaming, test outcomes / correlations equal, impact-based '
    'quantities scaled by 2^k.',
    bounds=dict(
        quick='panels P1, P11, P12 (multi-digit ids, two geos with tied '
        'means); 6 transformations; symbolic: budget, share, volume '
        'tolerance, treatment size range, n_geos_max (one at a time); 3 '
        'eligibility tables; both searches; 2^k in {2^3, 2^10, 2^-4}; '
        'P13 = P1 with a duplicated (geo, date) cell',
        thorough='adds P3, pairs of symbolic constraints, more '
        'seeded permutations'),
    outside='panels concrete; scale factors are powers of two (exact in '
    'IEEE arithmetic); date shifts by whole days',
    stubs=['pandas.core.nanops._ensure_numeric pass-through'],
    assumptions=['floats modelled as exact reals'],
)

TRANSFORMS = ['shuffle', 'dateshift', 'str_ids', 'rename_reverse', 'scale',
              'shuffle+rename', 'reverse']


def transform(ctx, name, seed, scale_pow=3):
  """Returns (df2, id_map old->new, scale c)."""
  df = ctx.df.copy()
  ids = sorted(set(df.geo), key=str)
  id_map = {str(g): str(g) for g in ids}
  c = 1.0
  for part in name.split('+'):
    if part == 'reverse':
      df = df.iloc[::-1].reset_index(drop=True)
    elif part == 'shuffle':
      df = df.sample(frac=1.0, random_state=seed + 11).reset_index(drop=True)
    elif part == 'dateshift':
      df['date'] = df['date'] + pd.Timedelta(days=[1, 365, -17][seed % 3])
    elif part == 'str_ids':
      df['geo'] = df['geo'].astype(str)
    elif part == 'rename_reverse':
      srt = sorted((str(g) for g in ids))
      new = ['r%02d' % i for i in range(len(srt))][::-1]
      m = dict(zip(srt, new))
      df['geo'] = df['geo'].astype(str).map(m)
      id_map = {k: m[v] for k, v in id_map.items()}
    elif part == 'scale':
      c = float(2.0 ** scale_pow)
      df['sales'] = df['sales'] * c
  return df, id_map, c


def _summ(out, back=None):
  """[(T, C, tests, corr, impact, score)] with ids mapped back."""
  res = []
  for T, C, d in search.designs_of(out):
    if back:
      T = frozenset(back[g] for g in T)
      C = frozenset(back[g] for g in C)
    sc = tuple(d.score.score)
    res.append(dict(T=T, C=C, tests=tuple(int(v) for v in sc[:4]),
                    corr=float(d.diag.corr), impact=float(
                        d.diag.required_impact), last=sc[5]))
  return res


def _eq(a, b, rtol=1e-12):
  if a != a and b != b:
    return True
  return abs(a - b) <= rtol * max(abs(a), abs(b))


def compare(A, B, c, budget_scoring):
  bad = []
  if len(A) != len(B):
    return ['number of designs %d vs %d' % (len(A), len(B))]
  for i, (a, b) in enumerate(zip(A, B)):
    if (a['T'], a['C']) != (b['T'], b['C']):
      bad.append('position %d: groups (%s|%s) vs (%s|%s)' % (
          i, sorted(a['T']), sorted(a['C']), sorted(b['T']), sorted(b['C'])))
      continue
    if a['tests'] != b['tests']:
      bad.append('position %d: test outcomes %s vs %s' % (i, a['tests'],
                                                          b['tests']))
    if not _eq(a['corr'], b['corr'], 1e-9):
      bad.append('position %d: corr %r vs %r' % (i, a['corr'], b['corr']))
    if not _eq(a['impact'] * c, b['impact'], 1e-9):
      bad.append('position %d: required impact %r x %g vs %r' % (
          i, a['impact'], c, b['impact']))
  return bad


def pair_job(name, panel, method, tname, sym, elig, seed=0, twin=False,
             scale_pow=3, max_s=1000):
  symx.patch_pandas()
  ctx = search.Ctx(panel, seed)
  df2, id_map, c = transform(ctx, tname, seed, scale_pow)
  ctx2 = search.Ctx(panel + '~' + tname, df=df2, n_test=ctx.n_test)
  back = {v: k for k, v in id_map.items()}
  elig2 = None if elig is None else {id_map[g]: r for g, r in elig.items()}
  js = framework.JobStats(name)
  trace = symx.FunctionTrace(framework.REPO)
  e = symx.Engine()

  orig_make = search.make_params

  def second_params(ctx_b, sym_, conc):
    par, sv = orig_make(ctx_b, sym_, conc)
    if c != 1.0 and par.budget_range is not None:
      par.budget_range = tuple(v * c for v in par.budget_range)
    return par, sv

  def fn():
    A = search.run(ctx, method, sym=sym, elig=elig)
    search.make_params = second_params
    try:
      B = search.run(ctx2, method, sym=sym, elig=elig2)
    finally:
      search.make_params = orig_make
    if (A.exc is None) != (B.exc is None):
      return A, ['one presentation raises: %r vs %r' % (A.exc, B.exc)], True
    if A.exc is not None:
      ok = type(A.exc) is type(B.exc)
      return A, ([] if ok else ['exception types differ: %r vs %r' % (
          A.exc, B.exc)]), False
    bad = compare(_summ(A), _summ(B, back), c, False)
    return A, bad, bool(A.result)

  def on_path(eng_, res):
    if res[0] == 'exc':
      js.r['inconclusive'].append('harness exception %r' % (res[1],))
      return
    A, bad, nontrivial = res[1]
    if nontrivial:
      js.r['nontrivial'] += 1
    js.r['obligations'] += 1
    if twin:
      bad = ['twin']
    if not bad:
      js.r['discharged'] += 1
    else:
      model = eng_.witness()
      vals = search.model_params(model, A) if model is not None else {}
      if len(js.r['violations']) < 30:
        js.r['violations'].append(dict(
            case=dict(kind='pair', panel=panel, seed=seed, method=method,
                      transform=tname, elig=elig, scale_pow=scale_pow,
                      conc=search.apply_concrete(None, vals)),
            twin=twin, detail=bad[:3],
            # exact-real reasoning can place a real-valued bound between a
            # float-computed quantity of one run and its twin in the other
            # run (they can differ by an ulp): such witnesses do not replay
            band_ok=('budget' in sym or 'share' in sym or 'vol' in sym)))
    if len(js.r['samples']) < 2:
      js.r['samples'].append(dict(transform=tname, method=method, symbolic=list(
          sym), designs=[(sorted(d['T']), sorted(d['C'])) for d in _summ(A)]
                                  if A.exc is None else repr(A.exc),
                                  mismatches=bad[:2]))

  trace.start()
  status = e.explore(fn, on_path, max_s=max_s)
  return js.finish(e, status, trace)


def _eligs(panel):
  from vf import panels
  df, _ = panels.panel(panel)
  ids = sorted(set(df.geo.astype(str)))
  out = [None, {g: 'ctx' for g in ids}]
  t = {g: 'ctx' for g in ids}
  t[ids[0]] = 'c'
  t[ids[-1]] = 'tx'
  out.append(t)
  return out


def jobs(tier, seed):
  out = []
  syms = [['budget'], ['share'], ['vol'], ['tsize'], ['ngm']]
  panels_ = ['P1', 'P11', 'P12', 'P13'] if tier == 'quick' else [
      'P13',
      'P1', 'P11', 'P12', 'P3']
  for panel in panels_:
    for m in ['exhaustive', 'greedy']:
      for t in TRANSFORMS:
        for sym in syms:
          for i, el in enumerate(_eligs(panel)):
            if panel == 'P13' and (t not in ('shuffle', 'reverse') or sym not
                                   in (['vol'], ['tsize']) or i != 0):
              continue   # duplicated cell: row-order transformations only
            if t == 'reverse' and panel != 'P13':
              continue
            if tier == 'quick' and (i == 1 or (panel != 'P1' and i == 2 and
                                               sym != ['ngm'])):
              continue
            if panel not in ('P1', 'P13') and m == 'exhaustive' and sym == [
                'budget']:
              continue   # 4-geo exhaustive budget cells: too many paths
            pw = [3, 10, -4][(len(out)) % 3]
            name = '%s-%s-%s-%s-e%d' % (panel, m, t, '+'.join(sym), i)
            out.append(dict(func='pair_job', name=name, weight=(
                20 if panel != 'P1' else 0) + (10 if sym == ['budget'] else 0),
                            kwargs=dict(name=name, panel=panel, method=m,
                                        tname=t, sym=sym, elig=el, seed=seed,
                                        scale_pow=pw, max_s=1100 if tier ==
                                        'quick' else 3000),
                            timeout_s=1200 if tier == 'quick' else 3300))
  if tier == 'thorough':
    for panel in ['P1']:
      for m in ['exhaustive', 'greedy']:
        for t in TRANSFORMS[:6]:
          for sym in (['budget', 'share'], ['vol', 'tsize'], ['ngm', 'share']):
            if panel == 'P12' and m == 'exhaustive' and 'budget' in sym:
              continue
            name = '%s-%s-%s-%s' % (panel, m, t, '+'.join(sym))
            out.append(dict(func='pair_job', name=name, weight=60, kwargs=dict(
                name=name, panel=panel, method=m, tname=t, sym=sym, elig=None,
                seed=seed + 1, max_s=3000), timeout_s=3300))
  out.append(dict(func='pair_job', name='twin', kwargs=dict(
      name='twin', panel='P1', method='exhaustive', tname='shuffle',
      sym=['share'], elig=None, twin=True)))
  return out


def replay(case):
  ctx = search.Ctx(case['panel'], case.get('seed', 0))
  df2, id_map, c = transform(ctx, case['transform'], case.get('seed', 0),
                             case.get('scale_pow', 3))
  ctx2 = search.Ctx(case['panel'] + '~', df=df2, n_test=ctx.n_test)
  back = {v: k for k, v in id_map.items()}
  elig = case['elig']
  elig2 = None if elig is None else {id_map[g]: r for g, r in elig.items()}
  conc = dict(case.get('conc') or {})
  for k, v in list(conc.items()):
    if isinstance(v, list):
      conc[k] = tuple(v)
  conc2 = dict(conc)
  if c != 1.0 and conc2.get('budget_range') is not None:
    conc2['budget_range'] = tuple(v * c for v in conc2['budget_range'])
  try:
    A = search.run(ctx, case['method'], conc=conc, elig=elig)
    B = search.run(ctx2, case['method'], conc=conc2, elig=elig2)
  except ValueError as ex:
    return dict(violates=False, detail='rejected: %s' % ex)
  if (A.exc is None) != (B.exc is None):
    return dict(violates=True, key='C12:%s:raises-differ' % case['transform'],
                detail='%r vs %r' % (A.exc, B.exc))
  if A.exc is not None:
    return dict(violates=False, detail='both raise')
  bad = compare(_summ(A), _summ(B, back), c, False)
  if not bad:
    return dict(violates=False, detail='identical up to the transformation')
  # qualitative input class: does the panel contain geos that tie exactly in
  # mean response or in standalone required impact (the search's two sort
  # keys)?  Only then can an ID-based tie-break change the answer.
  means = sorted(ctx.means.values())
  sds = sorted(float(np.std(ctx.piv.loc[g].to_numpy(), ddof=2))
               for g in ctx.ids)
  def _ties(v):
    return any(abs(a - b) <= 1e-12 * max(abs(a), abs(b)) for a, b in zip(
        v, v[1:]))
  tied = _ties(means) or _ties(sds)
  tclass = 'rename' if 'rename' in case['transform'] else case['transform']
  return dict(violates=True, key='C12:%s:%s' % (
      tclass, 'exactly-tied-geos' if tied else 'no-ties'),
              detail='; '.join(bad[:2]))
