"""C05: required impact is calibrated to the post-analysis test at the stated
power."""
import fractions

import numpy as np
import pandas as pd
import z3

from vf import framework
from vf import nstubs
from vf import symx
from vf.checks import c06
from vf.symx import F, SNum, eng

Fraction = fractions.Fraction
PID = 'C05'
HAS_TWIN = True
JOB_TIMEOUT = dict(quick=900, thorough=3000)

META = dict(
    explanation='The real TBRMMDiagnostics (_impact_estimate, '
    'estimate_required_impact, required_impact, corr) and the real tbr.TBR '
    '(fit, causal_cumulative_distribution, summary) run on symbolic pre-period '
    'series, symbolic test-period control values, symbolic sig_level and '
    'power_level; the planning F quantile and the t quantiles are purified '
    'variables, corr is defined implicitly (c^2 Sxx Syy = Sxy^2). z3 proves, '
    'factor-wise with lemma cuts: (a) std(y, ddof=2)^2 (1 - corr^2) = OLS '
    'residual variance; (b) required_impact^2 = (tq_sig + tq_pow)^2 x the '
    'TBR posterior scale^2 of an n_test-day test whose control mean is '
    'displaced by the planning F quantile; (c) when the test period shows '
    'exactly that lift the post-analysis estimate is the lift and its '
    'one-sided lower bound at confidence sig_level is tq_pow x scale; (d) '
    'required impact scales linearly with the response unit, ignores level '
    'shifts, and estimate_required_impact strictly decreases in |corr|.',
    bounds=dict(quick='all cells symbolic: (n_pre, n_test) in {(3,1), (3,2)}; '
                'pre-period control series a listed concrete series, '
                'treatment series / test period / levels symbolic: (4,2), '
                '(4,4), (5,3) (fully symbolic n_pre = 4 leaves z3 nlsat '
                'without an answer in 120 s on the implicit corr definition)',
                thorough='all symbolic adds (3,4), (3,7); concrete-control '
                'adds (6,2), (8,4) ((10,7) leaves nlsat without an answer in '
                '120 s)'),
    outside='flevel concrete 0.9 (it only selects the purified F quantile); '
    'n_pre > 10; numerical accuracy of scipy; the float constants 1/n and '
    '1/n_test are not exact rationals unless n, n_test are powers of two: '
    'those equalities are proved up to relative 1e-12',
    stubs=['stats.f(...).ppf, stats.t.ppf -> purified variables (F quantile > '
           '0; t quantile symmetry / monotonicity / sign instances)',
           'np.corrcoef -> implicit definition', 'stats.linregress',
           'sm.OLS, sp.stats.t (as in C06)',
           'functools.lru_cache wrapper of _impact_estimate unwrapped',
           'pandas.core.nanops._ensure_numeric pass-through'],
    assumptions=['positive residual variance and non-constant series (the '
                 'property\'s domain)', 'floats modelled as exact reals'],
)


def _sum(v):
  return sum(v[1:], v[0])


def impact_job(name, n, T, twin=False, max_s=800, xconc=False):
  symx.patch_pandas()
  from matched_markets.methodology import tbr as TBRmod
  from matched_markets.methodology import tbrmmdiagnostics as DG
  from matched_markets.methodology.tbrmmdesignparameters import TBRMMDesignParameters
  js = framework.JobStats(name)
  trace = symx.FunctionTrace(framework.REPO)
  e = symx.Engine()
  saved = (TBRmod.sm, TBRmod.sp, DG.stats, DG.np,
           DG.TBRMMDiagnostics._impact_estimate)

  def fn():
    if xconc:
      # listed concrete pre-period control series (small dyadic values): Sxx
      # is then a constant and the corr definition is quadratic in y
      base = [3, -1, 4, 1, -5, 9, 2, -6, 5, 3, 5, -8]
      x = [Fraction(base[i], 2) for i in range(n)]
    else:
      x = [symx.real('x%d' % i) for i in range(n)]
    y = [symx.real('y%d' % i) for i in range(n)]
    xt = [symx.real('xt%d' % i) for i in range(T)]
    yt = [symx.real('yt%d' % i) for i in range(T)]
    sig = symx.real('sig', 0, 1)
    pw = symx.real('pw', 0, 1)
    c = symx.real('c', 0, None)
    sh1, sh2 = symx.real('sh1'), symx.real('sh2')
    rho1 = symx.real('rho1', -1, 1)
    rho2 = symx.real('rho2', -1, 1)
    TBRmod.sm, TBRmod.sp = nstubs.SM, nstubs.SP
    DG.stats = nstubs.Stats
    DG.np = nstubs.np_namespace()
    DG.TBRMMDiagnostics._impact_estimate = saved[4].__wrapped__
    try:
      par = TBRMMDesignParameters(n_test=T, iroas=1.0)
      par.sig_level, par.power_level = sig, pw
      dg = DG.TBRMMDiagnostics(y, par)
      dg.x = list(x)
      corr = dg.corr
      ri = dg.required_impact
      dg2 = DG.TBRMMDiagnostics([v * c for v in y], par)
      dg2.x = [v * c for v in x]
      ri_scaled, corr_scaled = dg2.required_impact, dg2.corr
      dg3 = DG.TBRMMDiagnostics([v + sh1 for v in y], par)
      dg3.x = [v + sh2 for v in x]
      ri_shift, corr_shift = dg3.required_impact, dg3.corr
      e1 = dg.estimate_required_impact(rho1)
      e2 = dg.estimate_required_impact(rho2)
      # post analysis on a frame with this pre-period and the test period
      cells = {}
      for i in range(n):
        cells['x', i], cells['y', i] = x[i], y[i]
      for j in range(T):
        cells['x', n + j], cells['y', n + j] = xt[j], yt[j]
      # the experiment frame is presented in the split layout of C06: two
      # geos per group, an unassigned geo, unassigned-period rows, shuffled
      for k in 'wuv':
        for d in range(n + T):
          cells[k, d] = symx.real('%s%d' % (k, d))
      for i in range(4):
        cells['z', i] = symx.real('z%d' % i)
      m = TBRmod.TBR(use_cooldown=False)
      m.fit(c06.frame(cells, n, T, 0, 'B'), 'response')
      summ = m.summary(level=sig, tails=1, report='last').iloc[-1]
    finally:
      (TBRmod.sm, TBRmod.sp, DG.stats, DG.np,
       DG.TBRMMDiagnostics._impact_estimate) = saved
    return dict(x=x, y=y, xt=xt, yt=yt, sig=sig, pw=pw, c=c, ri=ri, corr=corr,
                ri_scaled=ri_scaled, corr_scaled=corr_scaled,
                ri_shift=ri_shift, corr_shift=corr_shift, e1=e1, e2=e2,
                rho1=rho1, rho2=rho2, summ=summ, m=m, cells=cells)

  def on_path(eng_, res):
    if res[0] == 'exc':
      if isinstance(res[1], ValueError) and 'corr must be between' in str(
          res[1]):
        return     # |corr| = 1: zero residual variance, outside the domain
      js.r['inconclusive'].append('exception on the path: %r' % (res[1],))
      return
    o = res[1]
    js.r['nontrivial'] += 1
    x, y, xt = o['x'], o['y'], o['xt']
    cf, sig2, (a, b, xb, yb, sxx) = c06.closed_form(o['cells'], n, T)
    calls = eng_.ncalls
    def q(name, pred):
      return [v for nm, args, v in calls if nm == name and pred(args)]
    tqs = q('tq', lambda a_: z3.simplify(a_[0]).eq(z3.simplify(o['sig'].e)))
    tqp = q('tq', lambda a_: z3.simplify(a_[0]).eq(z3.simplify(o['pw'].e)))
    phi = q('fq', lambda a_: True)
    obs = []
    ri = o['ri']
    sq = nstubs.sqrt_vars(ri.e)
    ok = len(sq) == 3 and bool(tqs) and bool(tqp) and len(phi) == 1
    obs.append(('structure: 3 roots, quantiles purified', ok, {}))
    if ok:
      tqs, tqp, phi = tqs[0], tqp[0], phi[0]
      rads = {v: nstubs.radicand(v) for v in sq}
      geom = [v for v in sq if any(u.eq(phi) for u in z3.z3util.get_vars(
          rads[v]))]
      cv = o['corr'].e
      onem = [v for v in sq if any(u.eq(cv) for u in z3.z3util.get_vars(
          rads[v]))]
      stdv = [v for v in sq if v not in geom + onem]
      ok2 = len(geom) == 1 and len(onem) == 1 and len(stdv) == 1
      obs.append(('structure: geometry / 1-corr^2 / std roots', ok2, {}))
      if ok2:
        g, om, sd = geom[0], onem[0], stdv[0]
        lead = z3.simplify(z3.substitute(ri.e, (g, z3.RealVal(1)), (
            om, z3.RealVal(1)), (sd, z3.RealVal(1))))
        obs.append(('required_impact = (tq_sig+tq_pow) n_test r r r',
                    z3.simplify(ri.e - lead * g * om * sd).eq(z3.RealVal(0))
                    and z3.simplify(lead - (tqs + tqp) * T).eq(z3.RealVal(0)),
                    {}))
        # (a) sigma lemma
        obs.append(('(a) std^2 (1-corr^2) = OLS residual variance', rads[sd] *
                    rads[om] == nstubs.L(sig2), dict(drop_sqrt=True)))
        # (b) geometry: T^2 * rad_geom == posterior factor under the
        # planning displacement of the test-period control mean
        mt = _sum(xt) / T
        disp = ((mt - xb) * (mt - xb) * T * (n - 1) * n).e == phi * (
            n + 1) * nstubs.L(sxx)
        factor = nstubs.L(cf[-1][1])
        eps = F(Fraction(1, 10**12))
        lhs = rads[g] * T * T
        exact = (n & (n - 1)) == 0 and (T & (T - 1)) == 0
        obs.append(('(b) n_test^2 x geometry radicand = Kerman factor', (
            lhs == factor) if exact else z3.And(
                lhs <= factor * (1 + eps), lhs >= factor * (1 - eps)),
                    dict(drop_sqrt=True, extra=[disp, nstubs.L(sxx) > 0])))
        # TBR scale^2 on that frame = sigma^2 * factor  (C06 proves it for
        # every frame; re-established here for this frame)
        row = o['summ']
        sct = nstubs.sqrt_vars(row['scale'].e)
        obs.append(('TBR scale is one root', len(sct) == 1, {}))
        if len(sct) == 1:
          sg = o['m'].pre_period_model.scale
          obs.append(('TBR scale^2 = sigma^2 x Kerman factor', nstubs.radicand(
              sct[0]) == sg.e * factor, dict(drop_sqrt=True)))
          # (c) total lift = required impact -> estimate = lift, lower =
          # tq_pow * scale, using the root lemma ri = (tq_sig+tq_pow) * scale
          lift = o['summ']['estimate']
          root_lemma = ri.e == (tqs + tqp) * sct[0]
          ax = nstubs.tq_axioms()
          obs.append(('(c) estimate = total lift (cumulative observed - '
                      'counterfactual)', lift.e == nstubs.L(cf[-1][0]), dict(
                          drop_sqrt=True)))
          obs.append(('(c) lower bound = tq_pow x scale when lift = required '
                      'impact', row['lower'].e == tqp * sct[0], dict(
                          drop_sqrt=True, extra=ax + [root_lemma, lift.e ==
                                                      ri.e])))
        # (d) unit equivariance
        sq2 = nstubs.sqrt_vars(o['ri_scaled'].e)
        rad2 = {v: nstubs.radicand(v) for v in sq2}
        sd2 = [v for v in sq2 if not v.eq(g) and not any(u.eq(phi) for u in
                                                          z3.z3util.get_vars(
                                                              rad2[v])) and
               not any(str(u).startswith('corr_') for u in z3.z3util.get_vars(
                   rad2[v]))]
        cs = o['corr_scaled'].e
        c_ = o['c'].e
        obs.append(('(d) scaled series: corr unchanged', cs == cv, dict(
            drop_sqrt=True)))
        if len(sd2) == 1:
          obs.append(('(d) scaled series: std^2 x c^2', rad2[sd2[0]] == c_ *
                      c_ * rads[sd], dict(drop_sqrt=True)))
          om2 = [v for v in sq2 if v not in (sd2[0],) and not v.eq(g) and any(
              str(u).startswith('corr_') for u in z3.z3util.get_vars(rad2[v]))]
          lem = [sd2[0] == c_ * sd] + ([om2[0] == om] if om2 else [])
          obs.append(('(d) required impact x c (root lemmas r\' = c r)',
                      o['ri_scaled'].e == c_ * ri.e, dict(
                          drop_sqrt=True, extra=lem)))
        else:
          obs.append(('(d) scaled structure', False, {}))
        # level shift
        sq3 = nstubs.sqrt_vars(o['ri_shift'].e)
        rad3 = {v: nstubs.radicand(v) for v in sq3}
        sd3 = [v for v in sq3 if not v.eq(g) and not any(
            u.eq(phi) for u in z3.z3util.get_vars(rad3[v])) and not any(
                str(u).startswith('corr_') for u in z3.z3util.get_vars(
                    rad3[v]))]
        obs.append(('(d) shifted series: corr unchanged', o['corr_shift'].e ==
                    cv, dict(drop_sqrt=True)))
        if len(sd3) == 1:
          same_std = sd3[0].eq(sd)
          obs.append(('(d) shifted series: std unchanged', True if same_std
                      else rad3[sd3[0]] == rads[sd], dict(drop_sqrt=True)))
          om3 = [v for v in sq3 if v not in (sd3[0],) and not v.eq(g) and any(
              str(u).startswith('corr_') for u in z3.z3util.get_vars(rad3[v]))]
          lem = ([] if same_std else [sd3[0] == sd]) + (
              [om3[0] == om] if om3 and not om3[0].eq(om) else [])
          obs.append(('(d) required impact ignores level shifts',
                      o['ri_shift'].e == ri.e, dict(drop_sqrt=True,
                                                    extra=lem)))
        else:
          obs.append(('(d) shifted structure', False, {}))
        # strict decrease in |corr|
        e1, e2 = o['e1'].e, o['e2'].e
        r1, r2 = o['rho1'].e, o['rho2'].e
        s1 = [v for v in nstubs.sqrt_vars(e1) if not v.eq(g) and not v.eq(sd)]
        s2 = [v for v in nstubs.sqrt_vars(e2) if not v.eq(g) and not v.eq(sd)]
        if len(s1) == 1 and len(s2) == 1:
          pos = [tqs + tqp > 0, sd > 0, g > 0]
          obs.append(('(d) strictly decreasing in |corr|', z3.Implies(
              r1 * r1 < r2 * r2, e1 > e2), dict(extra=pos)))
        else:
          obs.append(('(d) estimate structure', False, {}))
    if twin:
      obs = [('twin', False, {})]
    import os
    for nm, f, opt in obs:
      js.r['obligations'] += 1
      if isinstance(f, (bool, np.bool_)):
        verdict, model = ('unsat', None) if f else ('sat', None)
      else:
        verdict, model = nstubs.prove(
            eng_, f, extra=list(opt.get('extra', ())), drop_sqrt=opt.get(
                'drop_sqrt', False), timeout_ms=120000)
      if os.environ.get('VERIF_DEBUG'):
        print('  %-60s %s %.1fs' % (nm[:60], verdict, eng_.stats['solver_s']),
              flush=True)
      if verdict == 'unsat':
        js.r['discharged'] += 1
        continue
      if verdict == 'unknown':
        js.r['inconclusive'].append('solver unknown on "%s"' % nm)
        continue
      case = dict(kind='impact', n=n, T=T, clause=nm)
      if model is not None:
        def val(v):
          if not isinstance(v, SNum):
            return float(v)
          try:
            return float(symx.model_value(model, v))
          except Exception:  # pylint: disable=broad-except
            return 1.0
        case.update(x=[val(v) for v in x], y=[val(v) for v in y],
                    xt=[val(v) for v in xt], sig=val(o['sig']), pw=val(
                        o['pw']), c=val(o['c']))
      if len(js.r['violations']) < 12:
        js.r['violations'].append(dict(case=case, twin=twin, detail=nm))
    if len(js.r['samples']) < 2:
      js.r['samples'].append(dict(n_pre=n, n_test=T, obligations=[
          nm for nm, _, _ in obs]))

  trace.start()
  status = e.explore(fn, on_path, max_s=max_s)
  return js.finish(e, status, trace)


# ---- concrete oracle --------------------------------------------------------
def concrete_check(n, T, x, y, sig, pw, c=2.0, seed=0, rtol=1e-7):
  import scipy.stats as ss
  from matched_markets.methodology import tbr as TBRmod
  from matched_markets.methodology import tbrmmdiagnostics as DG
  from matched_markets.methodology.tbrmmdesignparameters import TBRMMDesignParameters
  x, y = np.asarray(x, float), np.asarray(y, float)
  bad = []
  def close(a, b):
    return abs(a - b) <= rtol * max(1.0, abs(a), abs(b))
  par = TBRMMDesignParameters(n_test=T, iroas=1.0, sig_level=sig,
                              power_level=pw)
  dg = DG.TBRMMDiagnostics(y, par)
  dg.x = x
  ri = float(dg.required_impact)
  xb, yb = x.mean(), y.mean()
  sxx = ((x - xb) ** 2).sum()
  sxy = ((x - xb) * (y - yb)).sum()
  syy = ((y - yb) ** 2).sum()
  if sxx <= 0 or syy <= 0 or syy - sxy ** 2 / sxx <= 1e-12 * syy:
    return ['degenerate-input']
  sig2 = (syy - sxy ** 2 / sxx) / (n - 2)
  phi = ss.f(1, n - 1).ppf(par.flevel)
  # planning displacement of the test-period control mean
  dx = (phi * (n + 1) * sxx / (T * (n - 1) * n)) ** 0.5
  scale = (sig2 * (T + T * T * (1.0 / n + dx * dx / sxx))) ** 0.5
  want = (ss.t.ppf(sig, n - 2) + ss.t.ppf(pw, n - 2)) * scale
  if not close(ri, want):
    bad.append('required-impact-vs-posterior-scale')
  # post analysis with exactly that lift
  b = sxy / sxx
  a = yb - b * xb
  cells = {}
  for i in range(n):
    cells['x', i], cells['y', i] = float(x[i]), float(y[i])
  for j in range(T):
    cells['x', n + j] = float(xb + dx)
    cells['y', n + j] = float(a + b * (xb + dx) + ri / T)
  # split layout: two geos per group, unassigned geo / period rows, shuffled
  rng = np.random.default_rng(seed + 3)
  for d in range(n + T):
    for k in 'wuv':
      cells[k, d] = float(np.round(rng.uniform(0, 3), 3))
  for i in range(4):
    cells['z', i] = float(np.round(rng.uniform(0, 30), 3))
  m = TBRmod.TBR(use_cooldown=False)
  m.fit(c06.frame(cells, n, T, 0, 'B'), 'response')
  row = m.summary(level=sig, tails=1, report='last').iloc[-1]
  if not close(row['estimate'], ri):
    bad.append('post-analysis-estimate')
  if not close(row['lower'], ss.t.ppf(pw, n - 2) * scale):
    bad.append('post-analysis-lower-bound')
  dg2 = DG.TBRMMDiagnostics(c * y, par)
  dg2.x = c * x
  if not close(float(dg2.required_impact), c * ri):
    bad.append('unit-equivariance')
  dg3 = DG.TBRMMDiagnostics(y + 17.0, par)
  dg3.x = x - 3.0
  if not close(float(dg3.required_impact), ri):
    bad.append('level-shift')
  if sig + pw > 1:
    vals = [float(dg.estimate_required_impact(r)) for r in (0.0, 0.3, -0.5,
                                                            0.9, -0.95)]
    if not all(vals[i] > vals[i + 1] for i in range(len(vals) - 1)):
      bad.append('monotone-in-corr')
  return bad


def conformance_job(name, seed=0):
  js = framework.JobStats(name)
  rng = np.random.default_rng(seed)
  k = 0
  for (n, T) in [(3, 1), (4, 2), (6, 3), (12, 7), (30, 14)]:
    for rep in range(3):
      x = 10 + 3 * rng.normal(size=n).cumsum()
      y = 4 + 1.7 * x + rng.normal(size=n)
      sig, pw = [(0.9, 0.8), (0.6, 0.7), (0.95, 0.5)][rep]
      bad = concrete_check(n, T, x, y, sig, pw, seed=seed)
      js.r['obligations'] += 1
      k += 1
      if not bad or bad == ['degenerate-input']:
        js.r['discharged'] += 1
      else:
        js.r['violations'].append(dict(case=dict(
            kind='impact', n=n, T=T, x=list(map(float, x)), y=list(map(
                float, y)), sig=sig, pw=pw, c=2.0), detail='conformance %s' %
                                       bad))
  js.r['conformance'] = k
  js.r['paths'] = k
  js.r['forks'] = 1
  js.r['nontrivial'] = 1
  js.r['exhaustive'] = True
  js.r['samples'] = [dict(kind='conformance', frames=k)]
  return js.r


def jobs(tier, seed):
  out = []
  full = [(3, 1), (3, 2)]
  xconc = [(4, 2), (4, 4), (5, 3)]
  if tier == 'thorough':
    full += [(3, 4), (3, 7)]
    xconc += [(6, 2), (8, 4)]
  for shapes, xc in ((full, False), (xconc, True)):
    for n, T in shapes:
      name = 'n%d-T%d%s' % (n, T, '-xconcrete' if xc else '')
      out.append(dict(func='impact_job', name=name, weight=n, kwargs=dict(
          name=name, n=n, T=T, xconc=xc, max_s=800 if tier == 'quick' else
          3000), timeout_s=900 if tier == 'quick' else 3300))
  out.append(dict(func='conformance_job', name='conformance', kwargs=dict(
      name='conformance', seed=seed)))
  out.append(dict(func='impact_job', name='twin', kwargs=dict(
      name='twin', n=3, T=1, twin=True)))
  return out


def replay(case):
  if case.get('x') is None:
    return dict(violates=False, detail='no concrete witness (structural '
                'clause): ' + str(case.get('clause')))
  bad = []
  try:
    bad = concrete_check(case['n'], case['T'], case['x'], case['y'],
                         min(max(case['sig'], 1e-6), 1 - 1e-6),
                         min(max(case['pw'], 1e-6), 1 - 1e-6),
                         c=case.get('c') or 2.0)
    # the witness may sit on a degenerate series; also try generic series
    if not bad or bad == ['degenerate-input']:
      rng = np.random.default_rng(1)
      for _ in range(6):
        n = case['n']
        x = 10 + 3 * rng.normal(size=n).cumsum()
        y = 4 + 1.7 * x + rng.normal(size=n)
        bad = concrete_check(n, case['T'], x, y, 0.9, 0.8)
        if bad and bad != ['degenerate-input']:
          break
  except Exception as e:  # pylint: disable=broad-except
    return dict(violates=True, key='C05:exception:%s' % type(e).__name__,
                detail=repr(e))
  if not bad or bad == ['degenerate-input']:
    return dict(violates=False, detail='real code calibrated as documented')
  return dict(violates=True, key='C05:' + bad[0], detail='failing on the real '
              'code: %s' % bad)
