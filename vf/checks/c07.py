"""C07: the iROAS summary is coherent with its incremental response and
cost."""
import fractions

import numpy as np
import pandas as pd
import z3

from vf import framework
from vf import nstubs
from vf import symx
from vf.checks import c06
from vf.symx import F, SNum, eng

Fraction = fractions.Fraction
PID = 'C07'
HAS_TWIN = True
JOB_TIMEOUT = dict(quick=900, thorough=3000)

META = dict(
    explanation='The real TBRiROAS.fit / _is_fixed_cost_scenario / summary '
    '(and through it both real TBR models, causal_effect, '
    'causal_cumulative_distribution, TBR.summary) run on a frame whose '
    'response cells, treatment test-period costs, level and threshold are z3 '
    'Reals. Fixed-cost scenario: z3 proves incremental cost = sum of '
    'treatment test(+cooldown) costs, iROAS estimate / lower / upper x cost = '
    'response-effect estimate / lower / upper, incremental-response bounds = '
    'iROAS bounds x cost, lower <= estimate <= upper, the probability\'s cdf '
    'argument is (threshold - estimate) / scale, and under cost x a, '
    'response x b (a, b symbolic > 0, threshold x b/a) every iROAS figure is '
    'multiplied by b/a while probability and relative lift (same simulated '
    'arguments, proved component-wise) are unchanged. Scenario label: with '
    'symbolic non-negative pre-period and control test-period costs the label '
    'is fixed when all are zero and variable when their sum >= 1e-10. '
    'Variable-cost scenario: two calls with the same random_state give '
    'identical reports (the simulation stub is a function of (df, n, '
    'random_state) and fresh without a state); lower <= estimate <= upper is '
    'a known finding there.',
    bounds=dict(quick='(n_pre, n_test, cooldown) in {(3,1,0), (3,2,1), '
                '(4,2,0)}; tails in {1,2}; nsims = 2; 2 cost-label layouts',
                thorough='adds (4,2,1), (5,3,1); nsims = 3'),
    outside='the distribution of scipy\'s random draws; non-positive '
    'incremental cost (degenerate by the property\'s own precondition); '
    'n_pre > 5',
    stubs=['sm.OLS incl. the rank-deficient all-zero cost regression '
           '(pseudo-inverse contract), sp.stats.t incl. rvs(n, random_state) '
           '= loc + scale z_j with purified draws',
           'np.median / np.percentile on simulated draws: opaque purified '
           'variables of the whole argument vector',
           'utils.float_order on a symbolic total: order < k <=> |x| < 10^k',
           'pandas.core.nanops._ensure_numeric pass-through'],
    assumptions=['floats modelled as exact reals',
                 'order statistics are functions of their argument vector '
                 '(congruence applied after component-wise equality is proved)'],
)


def frame(cells, cost, n, T, C, cost_pre=None, cost_ctl=None):
  rows = []
  dates = pd.date_range('2020-01-01', periods=n + T + C)
  for d in range(n + T + C):
    per = 0 if d < n else (1 if d < n + T else 2)
    cc = 0.0
    ct = 0.0
    if per == 0 and cost_pre is not None:
      cc, ct = cost_pre[0][d], cost_pre[1][d]
    if per == 1:
      ct = cost[d]
      if cost_ctl is not None:
        cc = cost_ctl[d]
    if per == 2:
      ct = cost.get(d, 0.0)
      if cost_ctl is not None:
        cc = cost_ctl.get(d, 0.0)
    rows.append(dict(date=dates[d], geo=1, group=1, period=per,
                     response=cells['x', d], cost=cc))
    rows.append(dict(date=dates[d], geo=2, group=2, period=per,
                     response=cells['y', d], cost=ct))
  return pd.DataFrame(rows)


def _install(IR, TBRmod, U):
  saved = (TBRmod.sm, TBRmod.sp, IR.np, U.float_order)
  TBRmod.sm, TBRmod.sp = nstubs.SM, nstubs.SP
  IR.np = nstubs.np_namespace()
  U.float_order = nstubs.float_order_stub(saved[3])
  return saved


def _restore(IR, TBRmod, U, saved):
  TBRmod.sm, TBRmod.sp, IR.np, U.float_order = saved


def _run_obs(js, eng_, obs, twin, case_fn):
  import os
  if twin:
    obs = [('twin', False, {})]
  for nm, f, opt in obs:
    js.r['obligations'] += 1
    if isinstance(f, (bool, np.bool_)):
      verdict, model = ('unsat', None) if f else ('sat', eng_.witness(
          timeout_ms=20000))
    else:
      verdict, model = nstubs.prove(
          eng_, f, extra=list(opt.get('extra', ())), drop_sqrt=opt.get(
              'drop_sqrt', False), timeout_ms=120000)
    if os.environ.get('VERIF_DEBUG'):
      print('  %-64s %s %.1fs' % (nm[:64], verdict, eng_.stats['solver_s']),
            flush=True)
    if verdict == 'unsat':
      js.r['discharged'] += 1
    elif verdict == 'unknown':
      js.r['inconclusive'].append('solver unknown on "%s"' % nm)
    elif len(js.r['violations']) < 12:
      js.r['violations'].append(dict(case=case_fn(model, nm), twin=twin,
                                     detail=nm))


def fixed_job(name, n, T, C, tails, twin=False, max_s=800, scaled=True):
  symx.patch_pandas()
  from matched_markets.methodology import tbr as TBRmod
  from matched_markets.methodology import tbr_iroas as IR
  from matched_markets.methodology import utils as U
  js = framework.JobStats(name)
  trace = symx.FunctionTrace(framework.REPO)
  e = symx.Engine()
  days = T + C

  def fn():
    cells = {(k, d): symx.real('%s%d' % (k, d)) for k in 'xy' for d in range(
        n + days)}
    cost = {d: symx.real('c%d' % d, 0, None) for d in range(n, n + T)}
    level = symx.real('level', 0, 1)
    if tails == 1:
      eng().assume(level.e >= F(0.5))
    thr = symx.real('thr')
    a = symx.real('a', 0, None)
    b = symx.real('b', 0, None)
    saved = _install(IR, TBRmod, U)
    try:
      m = IR.TBRiROAS(use_cooldown=bool(C))
      m.fit(frame(cells, cost, n, T, C))
      rep = m.summary(level=level, posterior_threshold=thr, tails=tails,
                      nsims=2, random_state=7)
      rep2 = None
      if scaled:
        cells2 = {k: v * b for k, v in cells.items()}
        cost2 = {k: v * a for k, v in cost.items()}
        m2 = IR.TBRiROAS(use_cooldown=bool(C))
        m2.fit(frame(cells2, cost2, n, T, C))
        rep2 = m2.summary(level=level, posterior_threshold=thr * b / a,
                          tails=tails, nsims=2, random_state=7)
    finally:
      _restore(IR, TBRmod, U, saved)
    return dict(cells=cells, cost=cost, level=level, thr=thr, rep=rep,
                rep2=rep2, a=a, b=b, m=m)

  def on_path(eng_, res):
    if res[0] == 'exc':
      js.r['inconclusive'].append('exception on the path: %r' % (res[1],))
      return
    o = res[1]
    js.r['nontrivial'] += 1
    cells, cost, level, thr = o['cells'], o['cost'], o['level'], o['thr']
    rep = o['rep'].iloc[-1]
    cf, sig2, _ = c06.closed_form(cells, n, days)
    loc = nstubs.L(cf[-1][0])
    Csum = sum(list(cost.values())[1:], list(cost.values())[0]).e
    obs = [('one report row', len(o['rep']) == 1, {}),
           ('scenario label fixed', rep['scenario'] == 'fixed', {}),
           ('incremental_cost = sum of treatment test costs', rep[
               'incremental_cost'].e == Csum, dict(drop_sqrt=True)),
           ('incremental_response = cumulative effect', rep[
               'incremental_response'].e == loc, dict(drop_sqrt=True)),
           ('estimate x cost = response effect', rep['estimate'].e * Csum ==
            loc, dict(drop_sqrt=True))]
    ax = nstubs.tq_axioms()
    est, lo, up = rep['estimate'], rep['lower'], rep['upper']
    # bounds: lower = (loc + scale tq(alpha)) / cost
    alpha = z3.simplify(((1 - level) / tails).e)
    tql = [v for nm, args, v in eng_.ncalls if nm == 'tq' and z3.simplify(
        args[0]).eq(alpha) and args[1] == n - 2]
    sq = nstubs.sqrt_vars(lo.e)
    ok = bool(tql) and len(sq) == 1
    obs.append(('lower bound structure', ok, {}))
    if ok:
      sg = o['m'].tbr_response.pre_period_model.scale
      obs.append(('posterior scale^2 = sigma^2 x Kerman factor (response)',
                  nstubs.radicand(sq[0]) == sg.e * nstubs.L(cf[-1][1]), dict(
                      drop_sqrt=True)))
      obs.append(('lower x cost = response lower bound', lo.e * Csum == loc +
                  sq[0] * tql[0], dict(drop_sqrt=True)))
      if tails == 2:
        obs.append(('upper x cost = response upper bound', up.e * Csum == loc
                    - sq[0] * tql[0], dict(drop_sqrt=True, extra=ax)))
        obs.append(('incremental_response_upper = upper x cost', rep[
            'incremental_response_upper'].e == up.e * Csum, dict(
                drop_sqrt=True)))
      else:
        obs.append(('upper = inf (one-sided)', not isinstance(up, SNum) and
                    up == np.inf and rep['incremental_response_upper'] ==
                    np.inf, {}))
      obs.append(('incremental_response_lower = lower x cost', rep[
          'incremental_response_lower'].e == lo.e * Csum, dict(
              drop_sqrt=True)))
      up_ok = (up.e >= est.e) if isinstance(up, SNum) else True
      obs.append(('lower <= estimate <= upper', z3.And(lo.e <= est.e, up_ok),
                  dict(extra=ax)))
      obs.append(('precision = estimate - lower', rep['precision'].e == est.e
                  - lo.e, dict(extra=ax)))
      # probability argument
      prob = rep['probability']
      zs = [(args[0], v) for nm, args, v in eng_.ncalls if nm == 'tcdf_arg']
      mine = [zz for zz, v in zs if z3.simplify(prob.e - (1 - v)).eq(
          z3.RealVal(0))]
      obs.append(('probability is 1 - cdf', bool(mine), {}))
      if mine:
        # P(iROAS > thr): standardised argument (thr - loc/C) / (scale/C)
        obs.append(('probability argument = (thr - estimate)/scale', mine[0] *
                    sq[0] == thr.e * Csum - loc, dict(extra=[sq[0] > 0])))
    rep2 = o['rep2']
    if rep2 is not None and ok:
      r2 = rep2.iloc[-1]
      a_, b_ = o['a'].e, o['b'].e
      obs.append(('scaling: estimate x b/a', r2['estimate'].e * a_ == est.e *
                  b_, dict(drop_sqrt=True)))
      sq2 = nstubs.sqrt_vars(r2['lower'].e)
      if len(sq2) == 1:
        sgA = o['m'].tbr_response.pre_period_model
        obs.append(('scaling: posterior scale^2 x b^2', True, {}))
        # sigma^2 lemma between the two runs (definitional variables)
        defs = {str(v): t for v, t in eng_.ndefs}
        v1 = [v for v in z3.z3util.get_vars(nstubs.radicand(sq[0])) if str(
            v).startswith('olsscale')]
        v2 = [v for v in z3.z3util.get_vars(nstubs.radicand(sq2[0])) if str(
            v).startswith('olsscale')]
        if len(v1) == 1 and len(v2) == 1:
          obs.append(('scaling: sigma^2 x b^2 (definitions)', defs[str(v2[
              0])] == defs[str(v1[0])] * b_ * b_, dict(drop_sqrt=True)))
          obs.append(('scaling: radicand x b^2 (sigma^2 cut)', nstubs.radicand(
              sq2[0]) == nstubs.radicand(sq[0]) * b_ * b_, dict(
                  drop_sqrt=True, extra=[v2[0] == v1[0] * b_ * b_])))
          lemma = [sq2[0] == sq[0] * b_]
          obs.append(('scaling: lower x b/a (root lemma)', r2['lower'].e * a_
                      == lo.e * b_, dict(drop_sqrt=True, extra=lemma)))
          if tails == 2:
            obs.append(('scaling: upper x b/a (root lemma)', r2['upper'].e *
                        a_ == up.e * b_, dict(drop_sqrt=True, extra=lemma)))
          # probability unchanged: same standardised argument
          zs2 = [zz for zz, v in zs if z3.simplify(r2['probability'].e - (
              1 - v)).eq(z3.RealVal(0))]
          if mine and zs2:
            obs.append(('scaling: probability argument unchanged', zs2[0] ==
                        mine[0], dict(drop_sqrt=True, extra=lemma + [
                            sq[0] > 0, sq2[0] > 0])))
          else:
            obs.append(('scaling: probability structure', False, {}))
          # relative lift: same simulated argument vector component-wise
          os1 = [(args, v) for nm, args, v in eng_.ncalls if nm ==
                 'order_stat']
          half = len(os1) // 2
          ok_os = half >= 1 and len(os1) == 2 * half
          obs.append(('scaling: relative-lift statistics structure', ok_os,
                      {}))
          if ok_os:
            for (g1, _), (g2, _) in zip(os1[:half], os1[half:]):
              same_q = (g1[1] is None and g2[1] is None) or (
                  g1[1] is not None and g2[1] is not None)
              obs.append(('scaling: relative-lift statistic kind', g1[0] ==
                          g2[0] and same_q, {}))
              for u1, u2 in zip(g1[2], g2[2]):
                isdiv = lambda t: z3.is_app(t) and t.decl().kind() == (
                    z3.Z3_OP_DIV)
                if isdiv(u1) and isdiv(u2):
                  # cross-multiplied, root lemma substituted (r' = b r):
                  # a polynomial identity; valid where both denominators
                  # are non-zero (elsewhere the ratio is undefined)
                  sub = (sq2[0], sq[0] * b_)
                  n2 = z3.substitute(u2.arg(0), sub)
                  d2 = z3.substitute(u2.arg(1), sub)
                  obs.append(('scaling: simulated relative lift unchanged',
                              u1.arg(0) * d2 == n2 * u1.arg(1), dict(
                                  drop_sqrt=True)))
                else:
                  obs.append(('scaling: simulated relative lift unchanged',
                              u1 == u2, dict(drop_sqrt=True, extra=lemma)))
        else:
          obs.append(('scaling: sigma structure', False, {}))
      else:
        obs.append(('scaling: lower structure', False, {}))

    def case_fn(model, nm):
      case = dict(kind='fixed', n=n, T=T, C=C, tails=tails, clause=nm)
      if model is not None:
        def val(v):
          try:
            return float(symx.model_value(model, v))
          except Exception:  # pylint: disable=broad-except
            return 1.0
        case.update(cells={'%s,%s' % k: val(v) for k, v in cells.items()},
                    cost={str(k): val(v) for k, v in cost.items()},
                    level=val(level), thr=val(thr), a=val(o['a']), b=val(
                        o['b']))
      return case
    _run_obs(js, eng_, obs, twin, case_fn)
    if len(js.r['samples']) < 2:
      js.r['samples'].append(dict(shape=(n, T, C), tails=tails, obligations=[
          nm for nm, _, _ in obs][:40]))

  trace.start()
  status = e.explore(fn, on_path, max_s=max_s)
  return js.finish(e, status, trace)


class _DummyOLS:
  """OLS is irrelevant for the scenario label: permissive stand-in."""

  def __init__(self, y, X):
    pass

  def fit(self):
    return self


def label_job(name, n, T, layout, twin=False, max_s=800):
  """Scenario label with symbolic non-negative pre / control-test costs."""
  symx.patch_pandas()
  from matched_markets.methodology import tbr as TBRmod
  from matched_markets.methodology import tbr_iroas as IR
  from matched_markets.methodology import utils as U
  js = framework.JobStats(name)
  trace = symx.FunctionTrace(framework.REPO)
  e = symx.Engine()

  def fn():
    rng = np.random.default_rng(5)
    cells = {(k, d): float(np.round(rng.uniform(5, 20), 2)) for k in 'xy'
             for d in range(n + T)}
    zero = lambda: 0.0
    pre_c = [symx.real('pc%d' % d, 0, None, lo_strict=False) if layout in (
        'all', 'control-pre') else 0.0 for d in range(n)]
    pre_t = [symx.real('pt%d' % d, 0, None, lo_strict=False) if layout in (
        'all', 'treatment-pre') else 0.0 for d in range(n)]
    ctl = {d: symx.real('tc%d' % d, 0, None, lo_strict=False) if layout in (
        'all', 'control-test') else 0.0 for d in range(n, n + T)}
    cost = {d: 3.0 for d in range(n, n + T)}
    saved = _install(IR, TBRmod, U)
    TBRmod.sm = type('SMd', (), dict(OLS=_DummyOLS))
    try:
      m = IR.TBRiROAS(use_cooldown=False)
      m.fit(frame(cells, cost, n, T, 0, cost_pre=(pre_c, pre_t),
                  cost_ctl=ctl))
      fixed = m._is_fixed_cost_scenario()
    finally:
      _restore(IR, TBRmod, U, saved)
    syms = [v for v in pre_c + pre_t + list(ctl.values()) if isinstance(
        v, SNum)]
    return fixed, syms

  def on_path(eng_, res):
    if res[0] == 'exc':
      js.r['inconclusive'].append('exception on the path: %r' % (res[1],))
      return
    fixed, syms = res[1]
    js.r['nontrivial'] += 1
    tot = sum(syms[1:], syms[0]).e
    allzero = z3.And(*[v.e == 0 for v in syms])
    if fixed:
      # label fixed => total below the documented magnitude tolerance
      f = tot < F(Fraction(1, 10**10))
      nm = 'fixed label only when outside costs are (numerically) zero'
    else:
      f = z3.Not(allzero)
      nm = 'variable label only when some outside cost is non-zero'

    def case_fn(model, nm_):
      return dict(kind='label', n=n, T=T, layout=layout, values={
          str(v.e): float(symx.model_value(model, v)) for v in syms}
                  if model is not None else None, fixed=bool(fixed))
    _run_obs(js, eng_, [(nm, f, {})], twin, case_fn)
    if len(js.r['samples']) < 2:
      js.r['samples'].append(dict(layout=layout, label_fixed=bool(fixed)))

  trace.start()
  status = e.explore(fn, on_path, max_s=max_s)
  return js.finish(e, status, trace)


def variable_job(name, n, T, tails, nsims=2, twin=False, max_s=800):
  """Variable-cost scenario: determinism in random_state; ordering."""
  symx.patch_pandas()
  from matched_markets.methodology import tbr as TBRmod
  from matched_markets.methodology import tbr_iroas as IR
  from matched_markets.methodology import utils as U
  js = framework.JobStats(name)
  trace = symx.FunctionTrace(framework.REPO)
  e = symx.Engine()

  def fn():
    rng = np.random.default_rng(9)
    cells = {(k, d): symx.real('%s%d' % (k, d)) for k in 'xy' for d in range(
        n + T)}
    pre_c = [float(rng.integers(1, 9)) / 2 for d in range(n)]
    pre_t = [float(rng.integers(1, 9)) / 2 for d in range(n)]
    ctl = {d: float(rng.integers(1, 9)) / 2 for d in range(n, n + T)}
    cost = {d: symx.real('c%d' % d, 0, None) for d in range(n, n + T)}
    level = symx.real('level', Fraction(1, 2), 1)
    thr = symx.real('thr')
    saved = _install(IR, TBRmod, U)
    try:
      m = IR.TBRiROAS(use_cooldown=False)
      m.fit(frame(cells, cost, n, T, 0, cost_pre=(pre_c, pre_t), cost_ctl=ctl))
      r1 = m.summary(level=level, posterior_threshold=thr, tails=tails,
                     nsims=nsims, random_state=11)
      r2 = m.summary(level=level, posterior_threshold=thr, tails=tails,
                     nsims=nsims, random_state=11)
    finally:
      _restore(IR, TBRmod, U, saved)
    return r1, r2

  def on_path(eng_, res):
    if res[0] == 'exc':
      js.r['inconclusive'].append('exception on the path: %r' % (res[1],))
      return
    r1, r2 = res[1]
    js.r['nontrivial'] += 1
    a, b = r1.iloc[-1], r2.iloc[-1]
    obs = [('scenario label variable', a['scenario'] == 'variable', {})]
    for col in r1.columns:
      va, vb = a[col], b[col]
      if isinstance(va, SNum) or isinstance(vb, SNum):
        ea, eb = nstubs.L(va), nstubs.L(vb)
        obs.append(('same random_state -> same %s' % col, z3.simplify(
            ea - eb).eq(z3.RealVal(0)) or (ea == eb), dict(drop_sqrt=True)))
      else:
        same = (va == vb) or (va != va and vb != vb)
        obs.append(('same random_state -> same %s' % col, bool(same), {}))
    up = a['upper']
    up_ok = (up.e >= a['estimate'].e) if isinstance(up, SNum) else True
    obs.append(('variable cost: lower <= estimate <= upper', z3.And(
        a['lower'].e <= a['estimate'].e, up_ok), dict(drop_sqrt=True)))

    def case_fn(model, nm):
      return dict(kind='variable', n=n, T=T, tails=tails, clause=nm)
    _run_obs(js, eng_, obs, twin, case_fn)
    if len(js.r['samples']) < 2:
      js.r['samples'].append(dict(kind='variable', tails=tails, columns=list(
          r1.columns)))

  trace.start()
  status = e.explore(fn, on_path, max_s=max_s)
  return js.finish(e, status, trace)


# ---- concrete oracle -------------------------------------------------------
def concrete_fixed(n, T, C, tails, cells, cost, level, thr, a=2.0, b=0.5,
                   rtol=1e-6):
  import scipy.stats as ss
  from matched_markets.methodology import tbr_iroas as IR
  days = T + C
  def close(u, v):
    u, v = float(u), float(v)
    if abs(u) == float('inf') or abs(v) == float('inf'):
      return u == v
    return abs(u - v) <= rtol * max(1.0, abs(u), abs(v))
  cf, sig2, (aa, bb, xb, yb, sxx) = c06.closed_form(cells, n, days)
  if not (sig2 > 0 and sxx > 0):
    return ['degenerate-input']
  Cs = sum(cost.values())
  if not Cs > 0:
    return ['degenerate-input']
  m = IR.TBRiROAS(use_cooldown=bool(C))
  m.fit(frame(cells, cost, n, T, C))
  rep = m.summary(level=level, posterior_threshold=thr, tails=tails,
                  nsims=200, random_state=3).iloc[-1]
  bad = []
  loc = cf[-1][0]
  sc = (sig2 * cf[-1][1]) ** 0.5
  d = ss.t(n - 2, loc=loc / Cs, scale=sc / Cs)
  alpha = (1 - level) / tails
  if rep['scenario'] != 'fixed':
    bad.append('scenario')
  if not close(rep['incremental_cost'], Cs):
    bad.append('incremental_cost')
  if not close(rep['estimate'] * Cs, loc):
    bad.append('estimate')
  if not close(rep['lower'], d.ppf(alpha)):
    bad.append('lower')
  if not close(rep['upper'], np.inf if tails == 1 else d.ppf(1 - alpha)):
    bad.append('upper')
  if not close(rep['incremental_response_lower'], rep['lower'] * Cs):
    bad.append('incremental_response_lower')
  if tails == 2 and not close(rep['incremental_response_upper'], rep['upper']
                              * Cs):
    bad.append('incremental_response_upper')
  if not close(rep['probability'], 1 - d.cdf(thr)):
    bad.append('probability')
  if not (rep['lower'] <= rep['estimate'] <= rep['upper']):
    bad.append('ordering')
  cells2 = {k: v * b for k, v in cells.items()}
  cost2 = {k: v * a for k, v in cost.items()}
  m2 = IR.TBRiROAS(use_cooldown=bool(C))
  m2.fit(frame(cells2, cost2, n, T, C))
  r2 = m2.summary(level=level, posterior_threshold=thr * b / a, tails=tails,
                  nsims=200, random_state=3).iloc[-1]
  for col in ('estimate', 'lower', 'upper'):
    if not close(r2[col], rep[col] * b / a):
      bad.append('scaling-' + col)
  if not close(r2['probability'], rep['probability']):
    bad.append('scaling-probability')
  if not close(r2['relative_lift'], rep['relative_lift']):
    bad.append('scaling-relative-lift')
  return sorted(set(bad))


def concrete_label(n, T, pre_c, pre_t, ctl):
  from matched_markets.methodology import tbr_iroas as IR
  rng = np.random.default_rng(5)
  cells = {(k, d): float(np.round(rng.uniform(5, 20), 2)) for k in 'xy'
           for d in range(n + T)}
  cost = {d: 3.0 for d in range(n, n + T)}
  m = IR.TBRiROAS(use_cooldown=False)
  m.fit(frame(cells, cost, n, T, 0, cost_pre=(pre_c, pre_t), cost_ctl=ctl))
  return bool(m._is_fixed_cost_scenario())


def concrete_variable(seed_frames=4):
  """Determinism + the known ordering finding on weak-cost frames."""
  from matched_markets.methodology import tbr_iroas as IR
  out = dict(nondeterministic=0, ordering=[])
  for fs in range(seed_frames):
    rng = np.random.default_rng(100 + fs)
    n, T = 20, 8
    rows = []
    dates = pd.date_range('2020-01-01', periods=n + T)
    base = rng.normal(size=n + T).cumsum()
    for d in range(n + T):
      per = 0 if d < n else 1
      xc = 10 + base[d] + 0.3 * rng.normal()
      rows.append(dict(date=dates[d], geo=1, group=1, period=per,
                       response=50 + 5 * xc + rng.normal(), cost=abs(xc)))
      rows.append(dict(date=dates[d], geo=2, group=2, period=per,
                       response=80 + 8 * xc + rng.normal() + (3 if per else 0),
                       cost=abs(xc) * 1.5 + 2.0 * rng.normal() + (
                           0.4 if per else 0)))
    df = pd.DataFrame(rows)
    m = IR.TBRiROAS(use_cooldown=False)
    m.fit(df)
    for rs in range(10):
      for tails in (1, 2):
        r1 = m.summary(tails=tails, nsims=500, random_state=rs).iloc[-1]
        r2 = m.summary(tails=tails, nsims=500, random_state=rs).iloc[-1]
        if not r1.drop('scenario').astype(float).equals(r2.drop(
            'scenario').astype(float)):
          out['nondeterministic'] += 1
        if r1['scenario'] == 'variable' and not (
            r1['lower'] <= r1['estimate'] <= r1['upper']):
          out['ordering'].append((fs, rs, tails))
  return out


def conformance_job(name, seed=0):
  js = framework.JobStats(name)
  k = 0
  for (n, T, C) in [(3, 1, 0), (4, 2, 1), (8, 3, 2)]:
    for tails in (1, 2):
      cells = c06._random_cells(n, T + C, seed + 40 + k)
      rng = np.random.default_rng(seed + k)
      cost = {d: float(np.round(rng.uniform(1, 5), 2)) for d in range(n, n +
                                                                      T)}
      bad = concrete_fixed(n, T, C, tails, cells, cost, 0.8, 0.7)
      js.r['obligations'] += 1
      k += 1
      if not bad or bad == ['degenerate-input']:
        js.r['discharged'] += 1
      else:
        js.r['violations'].append(dict(case=dict(
            kind='fixed', n=n, T=T, C=C, tails=tails, clause='conformance',
            cells={'%s,%s' % kk: v for kk, v in cells.items() if kk[0] in
                   'xy'}, cost={str(d): v for d, v in cost.items()},
            level=0.8, thr=0.7, a=2.0, b=0.5), detail='conformance %s' % bad))
  js.r['conformance'] = k
  js.r['paths'] = k
  js.r['forks'] = 1
  js.r['nontrivial'] = 1
  js.r['exhaustive'] = True
  js.r['samples'] = [dict(kind='conformance', frames=k)]
  return js.r


def jobs(tier, seed):
  out = []
  shapes = [(3, 1, 0), (3, 2, 1), (4, 2, 0)]
  if tier == 'thorough':
    shapes += [(4, 2, 1), (5, 3, 1)]
  for (n, T, C) in shapes:
    for tails in (1, 2):
      name = 'fixed-n%d-T%d-C%d-tails%d' % (n, T, C, tails)
      out.append(dict(func='fixed_job', name=name, weight=10 * n, kwargs=dict(
          name=name, n=n, T=T, C=C, tails=tails, max_s=800 if tier == 'quick'
          else 3000), timeout_s=900 if tier == 'quick' else 3300))
  for layout in ('all', 'treatment-pre', 'control-pre', 'control-test'):
    name = 'label-%s' % layout
    out.append(dict(func='label_job', name=name, kwargs=dict(
        name=name, n=3, T=2, layout=layout)))
  for tails in (1, 2):
    name = 'variable-tails%d' % tails
    out.append(dict(func='variable_job', name=name, kwargs=dict(
        name=name, n=3, T=2, tails=tails, nsims=2 if tier == 'quick' else 3)))
  out.append(dict(func='conformance_job', name='conformance', kwargs=dict(
      name='conformance', seed=seed)))
  out.append(dict(func='label_job', name='twin', kwargs=dict(
      name='twin', n=3, T=1, layout='all', twin=True)))
  return out


def replay(case):
  k = case.get('kind')
  try:
    if k == 'fixed':
      if case.get('cells') is None:
        return dict(violates=False, detail='structural clause without a '
                    'concrete witness: %s' % case.get('clause'))
      cells = {tuple([kk.split(',')[0], int(kk.split(',')[1])]): float(v)
               for kk, v in case['cells'].items()}
      cost = {int(d): float(v) for d, v in case['cost'].items()}
      lvl = min(max(case['level'], 1e-3), 1 - 1e-3)
      bad = concrete_fixed(case['n'], case['T'], case['C'], case['tails'],
                           cells, cost, lvl, case['thr'], a=case.get('a')
                           or 2.0, b=case.get('b') or 0.5)
      if not bad or bad == ['degenerate-input']:
        # the witness may be degenerate: also try generic frames
        for s in range(4):
          n, T, C = case['n'], case['T'], case['C']
          cells = c06._random_cells(n, T + C, 70 + s)
          cost = {d: 1.5 + 0.5 * d for d in range(n, n + T)}
          bad = concrete_fixed(n, T, C, case['tails'], cells, cost, 0.8, 0.7)
          if bad and bad != ['degenerate-input']:
            break
      if not bad or bad == ['degenerate-input']:
        return dict(violates=False, detail='real code coherent')
      return dict(violates=True, key='C07:fixed:' + bad[0],
                  detail='failing on the real code: %s' % bad)
    if k == 'label':
      vals = case.get('values') or {}
      n, T = case['n'], case['T']
      pre_c = [vals.get('pc%d' % d, 0.0) for d in range(n)]
      pre_t = [vals.get('pt%d' % d, 0.0) for d in range(n)]
      ctl = {d: vals.get('tc%d' % d, 0.0) for d in range(n, n + T)}
      tot = sum(pre_c) + sum(pre_t) + sum(ctl.values())
      fixed = concrete_label(n, T, pre_c, pre_t, ctl)
      if fixed and tot >= 1e-10:
        return dict(violates=True, key='C07:label:fixed-with-outside-cost',
                    detail='label fixed although pre-period / control test '
                    'costs sum to %g (%s)' % (tot, vals))
      if not fixed and tot == 0:
        return dict(violates=True, key='C07:label:variable-with-zero-cost',
                    detail='label variable although all outside costs are 0')
      return dict(violates=False, detail='label as documented')
    if k == 'variable':
      r = concrete_variable()
      if r['nondeterministic']:
        return dict(violates=True, key='C07:variable:nondeterministic',
                    detail='%d report pairs differ for the same random_state'
                    % r['nondeterministic'])
      if 'lower <= estimate' in str(case.get('clause')) and r['ordering']:
        return dict(violates=True, key='C07:variable:ordering',
                    detail='variable-cost estimate (mean of simulated ratios) '
                    'outside its percentile bounds for (frame, random_state, '
                    'tails) = %s' % r['ordering'][:4])
      return dict(violates=False, detail='deterministic; ordering held on the '
                  'scanned frames')
  except Exception as e:  # pylint: disable=broad-except
    return dict(violates=True, key='C07:exception:%s' % type(e).__name__,
                detail=repr(e))
  return dict(violates=False, detail='unknown case')
