"""C13: greedy search never beats the exhaustive optimum."""
import copy
import random

import numpy as np
import z3

from vf import search
from vf import searchjob

PID = 'C13'
HAS_TWIN = True
JOB_TIMEOUT = dict(quick=1200, thorough=3400)
RT = list(search.ROW_TYPES)

META = dict(
    explanation='Differential harness inside one symbolic path: the real '
    'greedy_search and the real exhaustive_search (n_designs raised so that '
    'its queue keeps the whole ranked feasible set) run on identical inputs '
    'with size ranges, geo-ratio and volume tolerances and eligibility cells '
    'as z3 variables (no budget / share constraint). Per path: every greedy '
    'design is a member of the exhaustive ranked set and of the independently '
    'enumerated feasible set (legal + constraints as a z3 formula), none '
    'scores strictly higher than the exhaustive best, and an empty '
    'exhaustive result implies an empty greedy result.',
    bounds=dict(
        quick='P1 all 7^3 eligibility matrices; P1/P2/P11 with tsize, csize, '
        'gratio, vol alone and in 5 pairs over 6 eligibility tables',
        thorough='adds P3 P4 P7 P8 P9, all 7^3 x {gratio, tsize+csize, vol}, '
        'seeded tables on 4 geos'),
    outside='panels concrete; N <= 4; budget and treatment-share constraints '
    'excluded by the property; NaN scores skipped',
    stubs=['pandas.core.nanops._ensure_numeric pass-through'],
    assumptions=['floats modelled as exact reals'],
)


def oracle(ctx, out):
  obs = []
  if out.exc is not None or out.mm is None:
    return obs
  M = ctx.M
  par2 = copy.copy(out.par)
  par2.n_designs = 10**6
  ge, _ = search.make_elig(ctx, None if out.elig_default else {
      g: _rt(r) for g, r in out.rows.items() if r is not None})
  try:
    data = M['data'].TBRMMData(ctx.df.copy(), 'sales', ge)
    mm2 = M['mm'].TBRMatchedMarkets(data, par2)
    with np.errstate(all='ignore'):
      exh = mm2.exhaustive_search()
  except ValueError as ex:
    obs.append(('exhaustive-rejects-greedy-accepts', False, dict(exc=str(ex))))
    return obs
  ranked = {(frozenset(d.treatment_geos), frozenset(d.control_geos)): d
            for d in exh}
  adm = list(out.mm.data.geo_index)
  greedy = search.designs_of(out)
  if not exh:
    obs.append(('exhaustive-empty-implies-greedy-empty', not greedy, dict(
        greedy=[(sorted(T), sorted(C)) for T, C, _ in greedy])))
  best = None
  if exh:
    best = tuple(exh[0].score.score)
  for T, C, d in greedy:
    det = dict(T=sorted(T), C=sorted(C))
    obs.append(('greedy-in-exhaustive-set', (T, C) in ranked, det))
    bad = search.legal(out.rows, T, C, ctx.ids)
    obs.append(('greedy-legal', not bad, dict(det, failed=bad)))
    for name, f in search.constraint_terms(ctx, out, T, C, adm,
                                           'loose').items():
      obs.append(('greedy-within:' + name, f, det))
    if best is not None:
      s = tuple(d.score.score)
      nan = any(v != v for v in s + best)
      obs.append(('greedy-not-better', nan or not (s > best), dict(
          det, greedy=[float(v) for v in s], best=[float(v) for v in best])))
  return obs


def _rt(r):
  inv = {v: k for k, v in search.ROW_TYPES.items()}
  return inv[tuple(r)]


ELIGS3 = [None,
          {'0': 'ctx', '1': 'c', '2': 'ctx'},
          {'0': 't', '1': 'ctx', '2': 'ctx'},
          {'0': 'ct', '1': 'cx', '2': 'tx'},
          {'0': 'ctx', '1': 'ct', '2': 'ct'},
          {'0': 'tx', '1': 'cx', '2': 'ctx'}]
ELIGS4 = [None,
          {'0': 'c', '1': 'ctx', '2': 'ctx', '3': 'tx'},
          {'0': 'ctx', '1': 't', '2': 'ctx', '3': 'ct'},
          {'0': 'tx', '1': 'tx', '2': 'cx', '3': 'cx'},
          {'0': 'ct', '1': 'ctx', '2': 'ct', '3': 'ctx'},
          {'0': 't', '1': 'tx', '2': 'c', '3': 'x'}]
FOUR = ['tsize', 'csize', 'gratio', 'vol']
PAIRS = [('tsize', 'csize'), ('gratio', 'vol'), ('gratio', 'csize'),
         ('vol', 'tsize'), ('gratio', 'tsize')]


def _mk(panel, sym, el, tag, seed=0, max_s=1000, elig_fix=None):
  name = '%s-%s-%s' % (panel, '+'.join(sym) or 'none', tag)
  w = (20 if panel != 'P1' else 0) + 6 * len(sym) + (10 if el is None else 0)
  return dict(func='job', name=name, weight=w, kwargs=dict(
      name=name, panel=panel, method='greedy', sym=list(sym), elig=el,
      seed=seed, max_s=max_s, elig_fix=elig_fix))


def jobs(tier, seed):
  out = []
  for r0 in RT:
    out.append(_mk('P1', [], 'sym', 'all343-' + r0, elig_fix={'0': r0}))
  for i, el in enumerate(ELIGS3):
    for s in FOUR:
      out.append(_mk('P1', [s], el, 'e%d' % i))
    for pr in PAIRS:
      out.append(_mk('P1', pr, el, 'e%d' % i))
  for panel in ['P2', 'P11']:
    for i, el in enumerate(ELIGS4):
      for s in FOUR:
        out.append(_mk(panel, [s], el, 'e%d' % i, max_s=2000))
      if tier == 'thorough' or (panel == 'P2' and i in (1, 3, 5)):
        for pr in PAIRS[:3]:
          out.append(_mk(panel, pr, el, 'e%d' % i, max_s=2500))
  if tier == 'thorough':
    rnd = random.Random(seed)
    for s in (['gratio'], ['tsize', 'csize'], ['vol']):
      for r0 in RT:
        out.append(_mk('P1', s, 'sym', 'all343-' + r0, elig_fix={'0': r0},
                       max_s=3000))
    for panel in ['P3', 'P4', 'P7', 'P8', 'P9']:
      n = 3 if panel in ('P4', 'P9') else 4
      els = [None] + [dict(zip('0123'[:n], (rnd.choice(RT) for _ in range(
          n)))) for _ in range(4)]
      for i, el in enumerate(els):
        for s in FOUR:
          out.append(_mk(panel, [s], el, 'r%d' % i, seed=seed, max_s=2500))
        for pr in PAIRS[:3]:
          out.append(_mk(panel, pr, el, 'r%d' % i, seed=seed, max_s=3000))
  out.append(dict(func='job', name='twin', kwargs=dict(
      name='twin', panel='P1', method='greedy', sym=['tsize'], elig=None,
      twin=True)))
  return out


def job(**kw):
  return searchjob.search_job(PID, oracles=[],
                              extra_oracle=('vf.checks.c13', 'oracle'), **kw)


def replay(case):
  return searchjob.replay_search(case, PID)
