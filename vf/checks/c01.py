"""C01: returned designs are legal assignments under the eligibility matrix."""
import itertools
import random

from vf import search
from vf import searchjob

PID = 'C01'
HAS_TWIN = True
JOB_TIMEOUT = dict(quick=900, thorough=3000)
ORACLES = ['legal', 'admitted']
RT = list(search.ROW_TYPES)

META = dict(
    explanation='Real TBRMMData/GeoEligibility/TBRMatchedMarkets searches '
    'executed concolically: every eligibility cell is a z3 Int in {0,1} (all '
    '7^N legal matrices are paths), n_geos_max / size ranges / share and '
    'budget ranges are z3 variables; per path the legality predicate '
    '(computed from the raw table) is discharged for every returned design.',
    bounds=dict(
        quick='N=3 panel P1: all 7^3 eligibility matrices x both searches; '
        'N=4 panels P2/P7 and N=3 P4: curated + seeded matrices with '
        'n_geos_max, treatment/control size ranges, share range or budget '
        'range symbolic (one or two at a time); histories: data object '
        'used before by / shared with a second search object',
        thorough='as quick, plus all 7^3 matrices x {n_geos_max, share} '
        'symbolic on P1 (both searches), panel P3, every symbolic group '
        'on every curated / seeded 4-geo table, 5-geo panel P10 with seeded '
        'tables, all-matrix shared-data histories'),
    outside='panels are a listed family of concrete panels (cells are not '
    'symbolic); N<=5; at most two parameter groups symbolic at once',
    stubs=['pandas.core.nanops._ensure_numeric pass-through for symbolic '
           'object arrays'],
    assumptions=[
        'floats modelled as exact reals (exact Fraction lifting)',
        'object-dtype pandas/numpy paths compute the same function as the '
        'float64 paths (validated by replay on the real code)',
        'real scipy/numpy numerics on the concrete panel are trusted'],
)


def _split_sym_jobs(panel, methods, sym, tier, tag, first_rows=RT,
                    conc=None, max_s=800):
  jobs = []
  from vf import panels
  df, _ = panels.panel(panel)
  ids = sorted(set(df.geo.astype(str)))
  for m in methods:
    for r0 in first_rows:
      name = '%s-%s-%s-sym[%s=%s]-%s' % (tag, panel, m, ids[0], r0,
                                         '+'.join(sym) or 'none')
      jobs.append(dict(func='job', name=name, kwargs=dict(
          name=name, panel=panel, method=m, sym=list(sym), conc=conc,
          elig='sym', elig_fix={ids[0]: r0}, max_s=max_s)))
  return jobs


CURATED4 = [
    dict(zip('0123', r)) for r in [
        ('c', 'ctx', 'ctx', 'tx'), ('ctx', 'ct', 'ctx', 'c'),
        ('t', 'ctx', 'cx', 'ctx'), ('ct', 'ct', 'ctx', 'ctx'),
        ('x', 'ctx', 'ctx', 'ctx'), ('ctx', 'ctx', 'ctx', 'c'),
        ('tx', 'tx', 'cx', 'cx'), ('ctx', 'ctx', 'ctx', 't'),
        ('ctx', 't', 'c', 'ctx'), ('cx', 'ct', 't', 'x'),
        ('t', 'ct', 'c', 'ctx'), ('ct', 'c', 'ctx', 't')]]


def jobs(tier, seed):
  out = []
  methods = ['exhaustive', 'greedy']
  out += _split_sym_jobs('P1', methods, [], tier, 'all343')
  rnd = random.Random(seed)
  mats = list(CURATED4) + [dict(zip('0123', (rnd.choice(RT) for _ in '0123')))
                           for _ in range(6 if tier == 'quick' else 10)]
  syms = [['ngm'], ['tsize', 'csize'], ['share'], ['budget'], ['ngm',
                                                               'share']]
  for panel in (['P2', 'P7'] if tier == 'quick' else ['P2', 'P7', 'P3']):
    for i, el in enumerate(mats):
      for m in methods:
        for sym in (syms if tier == 'thorough' else [syms[(i + j) % len(syms)]
                                                     for j in range(2)]):
          name = 'cur-%s-%s-%d-%s' % (panel, m, i, '+'.join(sym))
          out.append(dict(func='job', name=name, kwargs=dict(
              name=name, panel=panel, method=m, sym=sym, elig=el,
              seed=seed)))
  # default eligibility object and partial tables (geos missing from table)
  for m in methods:
    for panel in ['P1', 'P4', 'P5', 'P6']:
      name = 'default-%s-%s' % (panel, m)
      out.append(dict(func='job', name=name, kwargs=dict(
          name=name, panel=panel, method=m, sym=['ngm'] if panel in (
              'P1', 'P4') else [], elig=None)))
    name = 'partial-P2-%s' % m
    out.append(dict(func='job', name=name, kwargs=dict(
        name=name, panel='P2', method=m, sym=['tsize'],
        elig={'0': 'ct', '2': 'ctx', '3': 'cx'})))
  # shared data object: another search object is used in between
  for m in methods:
    for h in ['prior', 'interleave', 'interleave_small']:
      for i, el in enumerate(CURATED4[:5]):
        name = 'hist-%s-P2-%s-%d' % (h, m, i)
        out.append(dict(func='job', name=name, kwargs=dict(
            name=name, panel='P2', method=m, sym=['ngm'], elig=el,
            history=h)))
      if tier == 'thorough':
        for r0 in RT:
          name = 'hist-%s-P1-%s-sym-%s' % (h, m, r0)
          out.append(dict(func='job', name=name, kwargs=dict(
              name=name, panel='P1', method=m, sym=['ngm'], elig='sym',
              elig_fix={'0': r0}, history=h, max_s=2500)))
  if tier == 'thorough':
    for sym in (['ngm'], ['share']):
      out += _split_sym_jobs('P1', methods, sym, tier, 'all343',
                             max_s=2500)
    mats5 = [dict(zip('01234', (rnd.choice(RT) for _ in '01234')))
             for _ in range(10)]
    for i, el in enumerate(mats5):
      for m in methods:
        name = 'p10-%s-%d' % (m, i)
        out.append(dict(func='job', name=name, kwargs=dict(
            name=name, panel='P10', method=m, sym=['ngm'], elig=el,
            seed=seed)))
  # assert-False twin (vacuity guard)
  out.append(dict(func='job', name='twin', kwargs=dict(
      name='twin', panel='P1', method='exhaustive', sym=['ngm'], elig=None,
      twin=True)))
  return out


def job(**kw):
  return searchjob.search_job(PID, oracles=ORACLES, **kw)


def replay(case):
  return searchjob.replay_search(case, PID)
