"""C03: exhaustive search returns the best-scoring feasible designs, best
first (pushed = F \\ E lemma + top-k lemma)."""
import itertools
import random

import numpy as np
import z3

from vf import search
from vf import searchjob
from vf.symx import F

PID = 'C03'
HAS_TWIN = True
JOB_TIMEOUT = dict(quick=1200, thorough=3400)
RT = list(search.ROW_TYPES)

META = dict(
    explanation='The real exhaustive_search executed concolically with the '
    'constraint parameters, n_designs and eligibility as z3 variables. Per '
    'path: (L2) the multiset pushed into the real HeapDict (recording wrapper '
    'delegating to the real push) is compared with the feasible set F '
    'enumerated independently over all 3^N assignments, feasibility being a '
    'z3 formula in the symbolic thresholds - pushed subset of F(either share '
    'reading), F(both readings) minus the budget-pruning exemption E subset '
    'of pushed, no duplicates; (L3) the returned list is the k best pushed '
    'designs in non-increasing score order, r = min(k, |pushed|), and no '
    'pushed design outside the result scores strictly higher than the worst '
    'returned one; plus the documented admitted-geo set. (L1, the queue '
    'itself, is C14.)',
    bounds=dict(
        quick='panels P1 (N=3), P2 (N=4, curated eligibility) and P11 (4 '
        'comparable geos, default eligibility); every '
        'constraint alone + 8 pairs, n_designs 1..4 symbolic, 6 eligibility '
        'tables; all 7^3 matrices with no numeric constraint',
        thorough='adds 4 more pairs, P3 (tied means) P4 P8, seeded tables, all '
        '7^3 matrices x {gratio, tsize}'),
    outside='panels concrete; N <= 4 (3^N designs enumerated); scores '
    'containing NaN are not a total order and are skipped (counted); '
    'real-valued bounds don\'t-care within relative 1e-9',
    stubs=['pandas.core.nanops._ensure_numeric pass-through',
           'HeapDict.push wrapped by a recorder that delegates to the real '
           'method'],
    assumptions=['floats modelled as exact reals',
                 'scores of pushed designs are the ones C04 establishes'],
)


def _score_key(s):
  return tuple(float(v) if not hasattr(v, 'e') else v for v in s)


def oracle(ctx, out):
  """Obligations for one exhaustive_search run."""
  obs = []
  if out.exc is not None or out.mm is None:
    return obs
  p, sv = out.par, out.sv
  pushed = search.pushed_ids(out)
  adm = list(out.mm.data.geo_index)
  pset = {}
  dup = False
  for T, C, item in pushed:
    if (T, C) in pset:
      dup = True
    pset[(T, C)] = item
  obs.append(('no-duplicates', not dup, dict(n=len(pushed))))
  # the universe searched is this object's own admitted set
  own = set(out.mm.geos_within_constraints)
  obs.append(('searched universe = geos_within_constraints', set(adm) == own,
              dict(searched=sorted(adm), own=sorted(own))))
  _, must = search.eligibility_sets(out.rows)
  if 'ngm' in sv or p.n_geos_max is not None:
    ngm = sv['ngm'] if 'ngm' in sv else int(p.n_geos_max)
    for T, C, _ in pushed:
      nn = len(T | C)
      f = (nn <= ngm) if isinstance(ngm, int) else (ngm >= nn)
      if len(must) <= 2:
        obs.append(('design within n_geos_max', f if not isinstance(
            f, bool) else f, dict(T=sorted(T), C=sorted(C))))
  pk = search.par_key(out)
  rp = search.ref_par(ctx, out)
  has_budget = 'budget' in sv or p.budget_range is not None
  if has_budget:
    blo, bhi = sv['budget'] if 'budget' in sv else tuple(
        F(v) for v in p.budget_range)
  iroas = float(p.iroas)
  for T, C in search.all_designs(ctx.ids):
    det = dict(T=sorted(T), C=sorted(C))
    inp = (T, C) in pset
    if not (T | C) <= set(adm):
      obs.append(('pushed-only-admitted', not inp, det))
      continue
    leg = not search.legal(out.rows, T, C, ctx.ids)
    if not leg:
      obs.append(('pushed-legal', not inp, det))
      continue
    if inp:
      loose = search.constraint_terms(ctx, out, T, C, adm, 'loose')
      for name, f in loose.items():
        obs.append(('pushed-within:' + name, f, det))
    else:
      strict = search.conj(search.constraint_terms(ctx, out, T, C, adm,
                                                   'strict'))
      ex = []
      if has_budget:
        for k in range(1, len(T) + 1):
          for S in itertools.combinations(sorted(T), k):
            o = ctx.optimistic(S, pk, rp)
            if o != o or iroas == 0:
              ex.append(z3.BoolVal(True))
              continue
            ob = o / iroas
            ex.append(z3.Not(search._strict(ob, blo, bhi)))
      exempt = z3.Or(*ex) if ex else z3.BoolVal(False)
      # feasible under both readings and not exempt => must have been pushed
      obs.append(('feasible-not-pushed', z3.Or(z3.Not(strict), exempt), det))
  # L3: returned list = k best pushed, best first
  res = search.designs_of(out)
  k = sv['k'] if 'k' in sv else int(p.n_designs)
  n = len(pset)
  r = len(res)
  if isinstance(k, int):
    obs.append(('result-size', r == min(k, n), dict(r=r, k=k, pushed=n)))
  else:
    obs.append(('result-size', z3.If(k <= n, k == r, z3.IntVal(n) == r),
                dict(r=r, pushed=n)))
  keys = [(T, C) for T, C, _ in res]
  obs.append(('result-distinct', len(set(keys)) == len(keys), dict(r=r)))
  obs.append(('result-subset-of-pushed', all(kk in pset for kk in keys),
              dict(r=r)))
  scores = {kk: tuple(it.score.score) for kk, it in pset.items()}
  nan = any(any(isinstance(v, (float, np.floating)) and v != v for v in s)
            for s in scores.values())
  sym_score = any(hasattr(v, 'e') for s in scores.values() for v in s)
  if nan:
    obs.append(('nan-scores-skipped', True, dict()))
  elif sym_score:
    # budget-based last entry is symbolic (budget_max / impact): the order of
    # two designs with equal leading entries does not depend on budget_max
    # (positive common factor); compare on 1/impact instead.
    def conc(s):
      return tuple(float(v) for v in s[:5])
    ri = {kk: float(it.diag.required_impact) for kk, it in pset.items()}
    key = {kk: conc(scores[kk]) + (1.0 / ri[kk],) for kk in pset}
    _order_obs(obs, keys, key, pset)
  else:
    key = {kk: tuple(float(v) for v in scores[kk]) for kk in pset}
    _order_obs(obs, keys, key, pset)
  return obs


def _order_obs(obs, keys, key, pset):
  ok_sorted = all(not (key[keys[i]] < key[keys[i + 1]])
                  for i in range(len(keys) - 1))
  obs.append(('result-sorted', ok_sorted, dict(scores=[list(key[k]) for k in
                                                       keys])))
  if keys and all(k in key for k in keys):
    worst = min(key[k] for k in keys)
    better = [k for k in pset if k not in keys and key[k] > worst]
    obs.append(('no-better-omitted', not better, dict(
        omitted=[(sorted(a), sorted(b)) for a, b in better][:3])))


ELIGS3 = [None,
          {'0': 'ctx', '1': 'c', '2': 'ctx'},
          {'0': 't', '1': 'ctx', '2': 'ctx'},
          {'0': 'ct', '1': 'cx', '2': 'tx'},
          {'0': 'ctx', '1': 'ct', '2': 'ctx'},
          {'0': 'x', '1': 'ctx', '2': 'ctx'}]
ELIGS4 = [{'0': 'c', '1': 'ctx', '2': 'ctx', '3': 'tx'},
          {'0': 'ctx', '1': 't', '2': 'ctx', '3': 'ct'},
          {'0': 'tx', '1': 'tx', '2': 'cx', '3': 'cx'},
          {'0': 'ctx', '1': 'ctx', '2': 'x', '3': 'ctx'},
          None]
SIX = ['tsize', 'csize', 'gratio', 'vol', 'share', 'budget']
PAIRS = [('share', 'budget'), ('vol', 'gratio'), ('tsize', 'csize'),
         ('share', 'k'), ('budget', 'k'), ('gratio', 'csize'),
         ('vol', 'k'), ('gratio', 'k')]


def _mk(panel, sym, el, tag, seed=0, max_s=1000, elig_fix=None, conc=None,
        history=None):
  name = '%s-%s-%s%s' % (panel, '+'.join(sym) or 'none', tag,
                         '-' + history if history else '')
  w = (20 if panel != 'P1' else 0) + 6 * len(sym) + (10 if el is None else 0)
  return dict(func='job', name=name, weight=w, kwargs=dict(
      name=name, panel=panel, method='exhaustive', sym=list(sym), elig=el,
      seed=seed, max_s=max_s, elig_fix=elig_fix, conc=conc, history=history))


def jobs(tier, seed):
  out = []
  for i, el in enumerate(ELIGS3):
    for s in SIX + ['k']:
      out.append(_mk('P1', [s], el, 'e%d' % i))
    for pr in (PAIRS if tier == 'quick' else PAIRS + [
        ('share', 'vol'), ('budget', 'vol'), ('tsize', 'gratio'),
        ('csize', 'vol')]):
      out.append(_mk('P1', pr, el, 'e%d' % i))
  for r0 in RT:
    out.append(_mk('P1', [], 'sym', 'all343-' + r0, elig_fix={'0': r0}))
  for i, el in enumerate(ELIGS4):
    for s in SIX + ['k']:
      if tier == 'quick' and el is None and s in ('budget', 'share'):
        continue
      out.append(_mk('P2', [s], el, 'e%d' % i))
    if el is not None:
      for pr in PAIRS[:4]:
        out.append(_mk('P2', pr, el, 'e%d' % i, max_s=2500))
  # the data object is shared with / was used before by another search object
  for h in ('interleave', 'prior'):
    for i, el in enumerate(ELIGS4[:2] + [None]):
      for s in (['ngm'], ['k']):
        out.append(_mk('P2', s, el, 'h%d' % i, history=h, max_s=2500))
  # 4 comparable geos, default eligibility: subset sums are not monotone in
  # the enumeration order
  for s in (['share'], ['vol'], ['tsize'], ['gratio'], ['k']):
    out.append(_mk('P11', s, None, 'e0', max_s=2500))
  out.append(_mk('P2', ['share'], None, 'e4s', max_s=2500))
  if tier == 'thorough':
    rnd = random.Random(seed)
    out.append(_mk('P11', ['budget'], None, 'e0', max_s=3000))
    out.append(_mk('P11', ['share', 'k'], None, 'e0', max_s=3000))
    for s in (['gratio'], ['tsize']):
      for r0 in RT:
        out.append(_mk('P1', s, 'sym', 'all343-' + r0, elig_fix={'0': r0},
                       max_s=3000))
    for panel in ['P3', 'P4', 'P8']:
      n = 3 if panel == 'P4' else 4
      els = [None] + [dict(zip('0123'[:n], (rnd.choice(RT) for _ in range(
          n)))) for _ in range(3)]
      for i, el in enumerate(els):
        for s in SIX + ['k']:
          out.append(_mk(panel, [s], el, 'r%d' % i, seed=seed, max_s=2500))
        for pr in PAIRS[:5]:
          if el is not None:
            out.append(_mk(panel, pr, el, 'r%d' % i, seed=seed, max_s=3000))
  out.append(dict(func='job', name='twin', kwargs=dict(
      name='twin', panel='P1', method='exhaustive', sym=['share'], elig=None,
      twin=True)))
  return out


def job(**kw):
  return searchjob.search_job(PID, oracles=[], record_push=True,
                              extra_oracle=('vf.checks.c03', 'oracle'), **kw)


def replay(case):
  return searchjob.replay_search(case, PID)
