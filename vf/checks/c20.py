"""C20: expansion of excluded days is exact."""
import datetime
import functools
import itertools

import z3

from vf import framework
from vf import symx
from vf.symx import SNum, eng

PID = 'C20'
HAS_TWIN = True
JOB_TIMEOUT = dict(quick=900, thorough=3000)

META = dict(
    explanation='The real find_days_to_exclude, TimeWindow.__post_init__ and '
    'expand_time_windows executed concolically. Entries are instances of a '
    'str subclass whose split("-") yields 1, 2 or 3 pieces (solver-chosen) '
    'carrying a symbolic day ordinal (z3 Int) and a symbolic "parses" flag, '
    'i.e. an arbitrary string of the documented shapes with symbolic date '
    'fields; pd.Timestamp / pd.date_range in the two repo modules are '
    'replaced by a day-ordinal model. Per path: result as a multiset = union '
    'of the closed ranges, no day twice, no other day; any permutation of '
    'the entries gives the same set; an unparsable piece, 3+ pieces or a '
    'reversed range gives ValueError. A conformance step runs the real '
    'pandas-backed functions on month / year / leap-day boundary strings '
    'against a datetime oracle.',
    bounds=dict(quick='K=1: 7-day window; K=2: 4-day window, every shape '
                '(1-3 pieces, each piece parsable or not); K=3: 4-day window, '
                'well-formed entries, every overlap / duplication / '
                'adjacency / nesting / order pattern; 3 entry orders per path',
                thorough='5-day windows, K=4 in a 3-day window'),
    outside='pandas\' date parser and calendar arithmetic (trusted; exercised '
    'concretely in the conformance step); more than 4 entries',
    stubs=['pd.Timestamp -> day-ordinal model MTS (ValueError when the piece '
           'does not parse)',
           'pd.date_range(a, b, freq="D") -> consecutive ordinals a..b, empty '
           'if a > b'],
    assumptions=['consecutive calendar days map to consecutive integers'],
)


@functools.total_ordering
class MTS:
  """Model timestamp: a day ordinal (int or symbolic int)."""

  def __init__(self, piece):
    if isinstance(piece, MTS):
      self.o = piece.o
      return
    if not isinstance(piece, Piece):
      raise TypeError('stub Timestamp: unexpected argument %r' % (piece,))
    if not piece.ok:
      raise ValueError('could not convert string to Timestamp (stub)')
    self.o = piece.o

  @classmethod
  def at(cls, o):
    m = cls.__new__(cls)
    m.o = o
    return m

  def __gt__(self, o):
    return self.o > o.o

  def __lt__(self, o):
    return self.o < o.o

  def __eq__(self, o):
    return isinstance(o, MTS) and int(self.o) == int(o.o)

  def __hash__(self):
    return hash(int(self.o))

  def __repr__(self):
    return 'D%s' % self.o


class Piece(str):
  def __new__(cls, o, ok):
    s = str.__new__(cls, '<piece>')
    s.o, s.ok = o, ok
    return s


class Entry(str):
  def __new__(cls, pieces):
    s = str.__new__(cls, '<entry>')
    s.pieces = pieces
    return s

  def split(self, sep=None, maxsplit=-1):
    if sep != '-':
      raise symx.Unsupported('Entry.split(%r)' % (sep,))
    return list(self.pieces)


class _DateRange:
  def __init__(self, a, b):
    self.a, self.b = a, b

  def to_list(self):
    out = []
    d = self.a.o
    while d <= self.b.o:       # forks on a symbolic bound
      out.append(MTS.at(d))
      d = d + 1
    return out


class _PD:
  Timestamp = MTS

  @staticmethod
  def date_range(a, b, freq='D'):
    if freq != 'D':
      raise symx.Unsupported('date_range freq %r' % freq)
    return _DateRange(a, b)


def _install():
  from matched_markets.methodology import common_classes as CC
  from matched_markets.methodology import utils as U
  U.pd = _PD
  CC.pd = _PD
  return U


def _ival(d):
  return int(eng().concretize(d.e)) if isinstance(d, SNum) else int(d)


def _flag(w, i, j, p):
  if p.ok is True or p.ok is False:
    v = w.eval(z3.Bool('ok_%d_%d' % (i, j)), model_completion=True)
    return bool(p.ok) if not isinstance(p.ok, bool) else p.ok
  return bool(p.ok)


def days_job(name, k, span, twin=False, max_s=800, first_kind=None,
             wellformed=False, second_kind=None):
  U = _install()
  js = framework.JobStats(name)
  trace = symx.FunctionTrace(framework.REPO)
  e = symx.Engine()

  def fn():
    entries, spec = [], []
    for i in range(k):
      if i == 0 and first_kind is not None:
        kind = first_kind
      elif i == 1 and second_kind is not None:
        kind = second_kind
      else:
        kind = symx.choose('kind%d' % i, 1, 2 if wellformed else 3)
      ps = []
      for j in range(kind):
        o = symx.integer('o_%d_%d' % (i, j), 0, span)
        ok = True if wellformed else symx.flag('ok_%d_%d' % (i, j))
        ps.append(Piece(o, ok))
      entries.append(Entry(ps))
      spec.append(ps)
    results = []
    orders = [list(range(k))]
    if k > 1:
      orders.append(list(reversed(range(k))))
    if k > 2:
      orders.append(list(range(1, k)) + [0])
    for od in orders:
      try:
        days = U.expand_time_windows(U.find_days_to_exclude(
            [entries[i] for i in od]))
        results.append(('ok', sorted(_ival(d.o) for d in days)))
      except ValueError:
        results.append(('ValueError', None))
    # oracle (independent): union of closed ranges, or ValueError
    bad_input = any(len(ps) == 3 or any(not p.ok for p in ps) for ps in spec)
    exp = set()
    ranges = []
    if not bad_input:
      for ps in spec:
        a, b = _ival(ps[0].o), _ival(ps[-1].o)
        ranges.append((a, b))
        if a > b:
          bad_input = True
        exp |= set(range(a, b + 1))
    want = ('ValueError', None) if bad_input else ('ok', sorted(exp))
    bad = []
    for od, r in zip(orders, results):
      if r != want:
        bad.append('order %s: got %s, documented %s' % (od, r, want))
    return spec, bad

  def on_path(eng_, res):
    js.r['obligations'] += 1
    js.r['nontrivial'] += 1
    desc = None
    if res[0] == 'exc':
      bad = ['exception other than ValueError: %r' % (res[1],)]
      w = eng_.witness()
      if w is not None:
        desc = []
        for i in range(k):
          if i == 0 and first_kind is not None:
            kind = first_kind
          elif i == 1 and second_kind is not None:
            kind = second_kind
          else:
            kind = int(symx.model_value(w, z3.Int('kind%d' % i)))
          kind = max(1, min(3, kind))
          desc.append([(int(symx.model_value(w, z3.Int('o_%d_%d' % (i, j)))),
                        True if wellformed else z3.is_true(w.eval(z3.Bool(
                            'ok_%d_%d' % (i, j)), model_completion=True)))
                       for j in range(kind)])
    else:
      spec, bad = res[1]
      if bad or twin or len(js.r['samples']) < 3:
        w = eng_.witness()
        if w is not None:
          desc = [[(int(symx.model_value(w, p.o)) if isinstance(p.o, SNum)
                    else int(p.o), _flag(w, i, j, p)) for j, p in enumerate(
                        ps)] for i, ps in enumerate(spec)]
    if twin:
      bad = ['twin']
    if not bad:
      js.r['discharged'] += 1
    elif len(js.r['violations']) < 30:
      js.r['violations'].append(dict(case=dict(kind='days', entries=desc),
                                     twin=twin, detail=bad[:2]))
    if len(js.r['samples']) < 3 and desc:
      js.r['samples'].append(dict(entries=desc, mismatches=bad[:1]))

  trace.start()
  status = e.explore(fn, on_path, max_s=max_s)
  r = js.finish(e, status, trace)
  return r


BASE = datetime.date(2020, 2, 27)      # window spans a leap day and a month end


def _fmt(o):
  return (BASE + datetime.timedelta(days=o)).strftime('%Y/%m/%d')


CONF_CASES = [
    ['2020/02/27 - 2020/03/02', '2020/03/01'],
    ['2019/12/30-2020/01/02', '2019/12/31', '2020/01/01 - 2020/01/01'],
    ['2021/02/27-2021/03/01'],
    ['2020/01/31', '2020/02/01', '2020/01/31'],
    # the same string again after a call in which it overlapped a later-
    # ending entry (calls must not influence each other)
    ['2020/02/25 - 2020/03/02', '2020/03/01 - 2020/03/10'],
    ['2020/02/25 - 2020/03/02'],
    ['2020/06/11-2020/06/10'],
    ['2020/03/01 - 2020/02/29'],
    ['2020/03/05-2020/03/01'],
    ['2020/02/30'],
    ['2020-03-05'],
    ['2020/03/01-2020/03/02-2020/03/03'],
    ['x'],
    [],
]


def conformance_job(name):
  """Real pandas-backed functions against a datetime oracle (no stubs)."""
  from matched_markets.methodology import utils as U
  js = framework.JobStats(name)
  n = 0
  for ci, case in enumerate(CONF_CASES):
    bad = _concrete_mismatch(U, case)
    js.r['obligations'] += 1
    n += 1
    if bad:
      # the calls made before this one in the same process are part of the
      # case (calls must not influence each other)
      js.r['violations'].append(dict(case=dict(
          kind='strings', strings=case, earlier_calls=CONF_CASES[:ci]),
                                     detail=bad))
    else:
      js.r['discharged'] += 1
  js.r['conformance'] = n
  js.r['paths'] = n
  js.r['forks'] = 1
  js.r['nontrivial'] = 1
  js.r['exhaustive'] = True
  js.r['samples'] = [dict(strings=CONF_CASES[0])]
  return js.r


def _concrete_mismatch(U, strings):
  import pandas as pd
  def parse(s):
    return datetime.datetime.strptime(s.strip(), '%Y/%m/%d').date()
  want = set()
  err = False
  for s in strings:
    parts = s.split('-')
    try:
      if len(parts) == 1:
        a = b = parse(parts[0])
      elif len(parts) == 2:
        a, b = parse(parts[0]), parse(parts[1])
      else:
        raise ValueError
      if a > b:
        raise ValueError
      d = a
      while d <= b:
        want.add(d)
        d += datetime.timedelta(days=1)
    except ValueError:
      err = True
  try:
    got = U.expand_time_windows(U.find_days_to_exclude(list(strings)))
    got_dates = sorted(pd.Timestamp(g).date() for g in got)
    out = ('ok', got_dates)
  except ValueError:
    out = ('ValueError', None)
  except Exception as e:  # pylint: disable=broad-except
    out = (type(e).__name__, None)
  exp = ('ValueError', None) if err else ('ok', sorted(want))
  if out != exp:
    return 'strings %s: got %s, documented %s' % (strings, str(out)[:200],
                                                  str(exp)[:200])
  return None


def jobs(tier, seed):
  out = []
  out.append(dict(func='conformance_job', name='conformance', kwargs=dict(
      name='conformance')))
  out.append(dict(func='days_job', name='K1-span6', kwargs=dict(
      name='K1-span6', k=1, span=6)))
  big = tier == 'thorough'
  for fk in (1, 2, 3):
    for sk in (1, 2, 3):
      sp = 4 if big else 3
      nm = 'K2-span%d-kinds%d%d' % (sp, fk, sk)
      out.append(dict(func='days_job', name=nm, weight=10, kwargs=dict(
          name=nm, k=2, span=sp, first_kind=fk, second_kind=sk,
          max_s=800 if not big else 3000),
                      timeout_s=900 if not big else 3300))
  # well-formed entries only: every overlap / nesting / adjacency pattern
  for fk in (1, 2):
    for sk in (1, 2):
      sp = 4 if big else 3
      nm = 'K3-wellformed-span%d-kinds%d%d' % (sp, fk, sk)
      out.append(dict(func='days_job', name=nm, weight=30, kwargs=dict(
          name=nm, k=3, span=sp, first_kind=fk, second_kind=sk,
          wellformed=True, max_s=800 if not big else 3000),
                      timeout_s=900 if not big else 3300))
      if big:
        nm = 'K4-wellformed-span2-kinds%d%d' % (fk, sk)
        out.append(dict(func='days_job', name=nm, weight=40, kwargs=dict(
            name=nm, k=4, span=2, first_kind=fk, second_kind=sk,
            wellformed=True, max_s=3000), timeout_s=3300))
  out.append(dict(func='days_job', name='twin', kwargs=dict(
      name='twin', k=1, span=1, twin=True)))
  return out


def replay(case):
  from matched_markets.methodology import utils as U
  if case.get('kind') == 'strings':
    for prev in case.get('earlier_calls') or []:
      _concrete_mismatch(U, prev)
    bad = _concrete_mismatch(U, case['strings'])
    alone = case.get('earlier_calls') is not None
    return dict(violates=bool(bad), key='C20:strings', detail='%s%s' % (
        bad, ' (after %d earlier calls in the same process)' % len(
            case['earlier_calls']) if alone and bad else ''))
  if case.get('entries') is None:
    return dict(violates=False, detail='no concrete entries')
  strings = []
  for ps in case['entries']:
    pieces = [(_fmt(o) if ok else 'not a date') for o, ok in ps]
    strings.append(' - '.join(pieces) if len(pieces) == 2 else '-'.join(
        pieces))
  import itertools as it
  for perm in list(it.permutations(strings))[:6]:
    bad = _concrete_mismatch(U, list(perm))
    if bad:
      kind = 'ValueError-expected' if 'documented (\'ValueError\'' in bad else (
          'ValueError-unexpected' if "got ('ValueError'" in bad else 'days')
      return dict(violates=True, key='C20:%s' % kind, detail=bad)
  return dict(violates=False, detail='real functions agree with the oracle '
              'on %s' % strings)
