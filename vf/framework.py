"""Check driver: jobs -> solver verdicts -> replay -> findings -> evidence."""
import hashlib
import importlib
import json
import os
import sys
import time

from vf import pool

VERIF = os.path.dirname(os.path.dirname(os.path.abspath(__file__)))
REPO = os.environ.get('VERIF_REPO', '/repo')
OUT = os.environ.get('VERIF_OUT', VERIF)   # evidence/ and replays/ go here
EXIT_OK, EXIT_VIOLATION, EXIT_INCONCLUSIVE = 0, 1, 2


def seed():
  try:
    return int(os.environ.get('VERIF_SEED', '0'))
  except ValueError:
    return 0


def load_known():
  p = os.path.join(VERIF, 'known_findings.json')
  if not os.path.exists(p):
    return []
  return json.load(open(p))['findings']


def _jsonable(o):
  import fractions
  try:
    import numpy as np
  except ImportError:
    np = None
  if isinstance(o, dict):
    return {str(k): _jsonable(v) for k, v in o.items()}
  if isinstance(o, (list, tuple, set, frozenset)):
    return [_jsonable(v) for v in (sorted(o, key=str) if isinstance(
        o, (set, frozenset)) else o)]
  if isinstance(o, fractions.Fraction):
    return float(o)
  if np is not None:
    if isinstance(o, np.generic):
      return o.item()
    if isinstance(o, np.ndarray):
      return o.tolist()
  if isinstance(o, float) and (o != o or o in (float('inf'), float('-inf'))):
    return repr(o)
  if isinstance(o, (str, int, float, bool)) or o is None:
    return o
  return repr(o)


def case_hash(case):
  return hashlib.sha1(json.dumps(_jsonable(case), sort_keys=True).encode()
                      ).hexdigest()[:12]


def replay_case(module, case):
  """Runs in a clean worker: no symx, no stubs."""
  mod = importlib.import_module(module)
  return mod.replay(case)


class Report:
  """Accumulates job results of one check run."""

  def __init__(self, pid, tier):
    self.pid, self.tier = pid, tier
    self.t0 = time.time()
    self.agg = dict(cvc5_unsat=0, cvc5_sat=0, cvc5_unknown=0, cvc5_error=0,
                    paths=0, aborted=0, solver_calls=0, solver_s=0.0, forks=0,
                    concretised=0, unknown=0, final_queries=0, final_unsat=0,
                    final_sat=0, final_unknown=0, obligations=0, discharged=0,
                    nontrivial=0, jobs=0, jobs_exhaustive=0)
    self.functions = set()
    self.samples = []
    self.candidates = []
    self.inconclusive = []
    self.job_rows = []
    self.conformance = 0
    self.replays = 0
    self.extra = {}

  def add(self, job, status, payload, wall):
    name = job.get('name', job['func'])
    if status != 'ok':
      self.inconclusive.append('job %s: %s: %s' % (name, status,
                                                   str(payload)[-1500:]))
      self.job_rows.append(dict(job=name, status=status, wall_s=round(wall, 1)))
      return
    r = payload
    self.agg['jobs'] += 1
    for k in self.agg:
      if k in r and k not in ('jobs', 'jobs_exhaustive'):
        self.agg[k] += r[k]
    if r.get('exhaustive'):
      self.agg['jobs_exhaustive'] += 1
    else:
      self.inconclusive.append('job %s did not exhaust its paths within its '
                               'budget' % name)
    self.functions.update(r.get('functions', []))
    for s in r.get('samples', [])[:3]:
      if len(self.samples) < 12:
        self.samples.append(s)
    if job.get('name') == 'twin' or r.get('name') == 'twin':
      # the assert-False twin's obligations are refuted on purpose
      self.agg['obligations'] -= r.get('obligations', 0)
      self.agg['discharged'] -= r.get('discharged', 0)
    for v in r.get('violations', []):
      v = dict(v)
      v['job'] = name
      self.candidates.append(v)
    for m in r.get('inconclusive', []):
      self.inconclusive.append('job %s: %s' % (name, m))
    self.conformance += r.get('conformance', 0)
    for k, v in r.get('extra', {}).items():
      self.extra.setdefault(k, 0)
      self.extra[k] += v
    self.job_rows.append(dict(job=name, status='ok', wall_s=round(wall, 1),
                              paths=r.get('paths'), obligations=r.get(
                                  'obligations'), exhaustive=r.get(
                                      'exhaustive')))


def run_check(mod, tier):
  """mod: a check module with PID, jobs(tier, seed), replay(case), META."""
  pid = mod.PID
  rep = Report(pid, tier)
  sd = seed()
  jobs = mod.jobs(tier, sd)
  for j in jobs:
    j.setdefault('module', mod.__name__)
  quiet = os.environ.get('VERIF_QUIET')

  def progress(done, total, row):
    if not quiet:
      job, status, payload, wall = row
      extra = ''
      if status == 'ok':
        extra = 'paths=%s obl=%s viol=%d' % (payload.get('paths'), payload.get(
            'obligations'), len(payload.get('violations', [])))
      else:
        extra = str(payload)[-300:].replace('\n', ' | ')
      print('[%s %d/%d] %s %s %.1fs %s' % (pid, done, total, job.get(
          'name', job['func']), status, wall, extra), file=sys.stderr,
            flush=True)
  results = pool.run_jobs(jobs, timeout_s=getattr(mod, 'JOB_TIMEOUT', {}).get(
      tier, 900), progress=progress)
  for job, status, payload, wall in results:
    rep.add(job, status, payload, wall)

  # vacuity guards
  if rep.agg['nontrivial'] < 1:
    rep.inconclusive.append('vacuity: no path reached an assertion with a '
                            'non-trivial result')
  twins = [c for c in rep.candidates if c.get('twin')]
  rep.candidates = [c for c in rep.candidates if not c.get('twin')]
  if getattr(mod, 'HAS_TWIN', False) and not twins:
    rep.inconclusive.append('vacuity: the assert-False twin produced no '
                            'counterexample')

  # replay candidates on the real code (clean workers), dedupe by case
  known = [k for k in load_known() if k['property'] == pid]
  uniq = {}
  for c in rep.candidates:
    uniq.setdefault(case_hash(c['case']), c)
  # cap the number of replays but keep distinct keys
  items = list(uniq.items())
  rjobs = [dict(module='vf.framework', func='replay_case', name='replay-' + h,
                kwargs=dict(module=mod.__name__, case=c['case']),
                timeout_s=300) for h, c in items[:400]]
  confirmed, known_hits = [], {}
  if rjobs:
    rres = pool.run_jobs(rjobs)
    for (h, c), (job, status, payload, wall) in zip(items, rres):
      rep.replays += 1
      if status != 'ok':
        rep.inconclusive.append('replay %s: %s %s' % (h, status,
                                                      str(payload)[-500:]))
        continue
      if not payload.get('violates') and c.get('band_ok'):
        # a solver counterexample that lives inside the IEEE rounding band of
        # a float-computed quantity (DESIGN 5.1): not claimed either way
        rep.extra['rounding_band_counterexamples_not_replayed'] = rep.extra.get(
            'rounding_band_counterexamples_not_replayed', 0) + 1
        continue
      if not payload.get('violates'):
        rep.inconclusive.append(
            'counterexample %s from job %s did not reproduce on the real code '
            '(%s); encoding or stub suspected' % (h, c.get('job'), str(
                payload.get('detail'))[:300]))
        continue
      key = payload.get('key', '')
      hit = [k for k in known if k['status'] == 'known' and k['key'] == key]
      if hit:
        known_hits.setdefault(key, [hit[0], 0])
        known_hits[key][1] += 1
      else:
        confirmed.append((h, c, payload))
  lines = []
  for key, (k, n) in sorted(known_hits.items()):
    lines.append('KNOWN-FINDING: property=%s %s [key=%s; %d reproduced '
                 'instance(s) this run]' % (pid, k['what'], key, n))
  seen_keys = set()
  os.makedirs(os.path.join(OUT, 'replays', pid), exist_ok=True)
  for h, c, payload in confirmed:
    path = os.path.join(OUT, 'replays', pid, h + '.json')
    json.dump(_jsonable(dict(property=pid, module=mod.__name__, case=c['case'],
                             key=payload.get('key'), detail=payload.get(
                                 'detail'), found_by=c.get('job'),
                             solver_detail=c.get('detail'))),
              open(path, 'w'), indent=1)
    if payload.get('key') in seen_keys and len(seen_keys) >= 1 and len(
        lines) > 40:
      continue
    seen_keys.add(payload.get('key'))
    lines.append('VIOLATION property=%s replay=%s  # %s' % (pid, path, str(
        payload.get('detail'))[:200].replace('\n', ' ')))
  wall = time.time() - rep.t0
  write_evidence(mod, rep, tier, sd, wall, len(confirmed), len(known_hits))
  for ln in lines:
    print(ln)
  if confirmed:
    print('%s: %d violation(s) reproduced on the real code' % (pid, len(
        confirmed)))
    return EXIT_VIOLATION
  if rep.inconclusive:
    for m in rep.inconclusive[:30]:
      print('INCONCLUSIVE %s: %s' % (pid, m[:1200]))
    return EXIT_INCONCLUSIVE
  print('%s %s: held on everything explored: %d jobs, %d paths, %d/%d '
        'obligations discharged, solver %.1fs, wall %.1fs' % (
            pid, tier, rep.agg['jobs'], rep.agg['paths'],
            rep.agg['discharged'], rep.agg['obligations'],
            rep.agg['solver_s'], wall))
  return EXIT_OK


def write_evidence(mod, rep, tier, sd, wall, n_viol, n_known):
  a = rep.agg
  meta = mod.META
  cov = dict(
      states=max(a['paths'], 0),
      transitions=max(a['forks'] + a['concretised'] + a['final_queries'], 0),
      traces_validated_against_impl=rep.conformance + rep.replays,
      samples=_jsonable(rep.samples) or ['<none>'],
      obligations=a['obligations'],
      discharged=a['discharged'],
      exhaustive=bool(a['jobs'] and a['jobs'] == a['jobs_exhaustive'] and
                      not rep.inconclusive),
      explanation=meta.get('explanation', ''),
      functions_encoded=sorted(rep.functions),
      bounds=meta.get('bounds', {}).get(tier, meta.get('bounds')),
      outside_bounds=meta.get('outside', ''),
      stubs=meta.get('stubs', []),
      jobs=a['jobs'], jobs_exhaustive=a['jobs_exhaustive'],
      paths_aborted_infeasible=a['aborted'],
      nontrivial_paths=a['nontrivial'],
      solver=dict(engine='z3 %s' % _z3v(), calls=a['solver_calls'],
                  seconds=round(a['solver_s'], 2),
                  branch_unknown_explored_as_feasible=a['unknown'] - a[
                      'final_unknown'],
                  final_queries=a['final_queries'], final_unsat=a[
                      'final_unsat'], final_sat=a['final_sat'],
                  final_unknown=a['final_unknown'],
                  cvc5_crosscheck_of_final_unsat=dict(
                      agree_unsat=a['cvc5_unsat'], disagree_sat=a['cvc5_sat'],
                      unknown=a['cvc5_unknown'], error=a['cvc5_error'])),
      replays_on_real_code=rep.replays,
      conformance_runs=rep.conformance,
      known_findings_reproduced=n_known,
      inconclusive=rep.inconclusive[:20],
      per_job=rep.job_rows[:200],
  )
  cov.update(rep.extra)
  ev = dict(property_id=rep.pid, tier=tier, seed=sd, level='model_checking',
            coverage=cov, assumptions=meta.get('assumptions', []),
            wall_s=round(wall, 2), violations=n_viol)
  os.makedirs(os.path.join(OUT, 'evidence'), exist_ok=True)
  json.dump(ev, open(os.path.join(OUT, 'evidence', rep.pid + '.json'), 'w'),
            indent=1)


def _z3v():
  try:
    import z3
    return z3.get_version_string()
  except Exception:  # pylint: disable=broad-except
    return '?'


class JobStats:
  """Helper used inside harness functions to build the result dict."""

  def __init__(self, name):
    self.name = name
    self.r = dict(name=name, obligations=0, discharged=0, nontrivial=0,
                  violations=[], inconclusive=[], samples=[], functions=[],
                  exhaustive=False, conformance=0, extra={})

  def finish(self, engine=None, status=None, trace=None):
    if engine is not None:
      for k, v in engine.stats.items():
        self.r[k] = self.r.get(k, 0) + v
      if status is not None:
        self.r['exhaustive'] = (status == 'exhausted')
    if trace is not None:
      self.r['functions'] = trace.stop()
    return self.r
