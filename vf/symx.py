"""symx - concolic execution of the repository's Python on z3 terms.

Symbolic scalars (SNum / SBool) wrap z3 terms.  Control flow meets a symbolic
value only in SBool.__bool__ (fork) and SNum.__index__/__hash__/__int__
(concretise by solver, fork on value).  Exploration is by re-execution with a
decision prefix (DFS).  Floats are lifted exactly (fractions.Fraction).

The engine never silently concretises a real: __float__ raises Unsupported.
"""
import fractions
import math
import os
import sys
import time

import z3

Fraction = fractions.Fraction


class PathAbort(BaseException):
  """Infeasible path / assumption violated (not an error)."""


class Unsupported(BaseException):
  """The code under analysis used a construct the engine cannot model."""


class _Cur:
  eng = None


def eng():
  e = _Cur.eng
  if e is None:
    raise RuntimeError('no active symx engine')
  return e


def active():
  return _Cur.eng is not None


def F(v):
  """Exact z3 real value of a python/numpy number."""
  if isinstance(v, SNum):
    return v.e
  if isinstance(v, bool):
    return z3.RealVal(int(v))
  if isinstance(v, int):
    return z3.RealVal(v)
  if isinstance(v, Fraction):
    return z3.RealVal(v)
  v = float(v)
  if v != v or v in (float('inf'), float('-inf')):
    raise Unsupported('non-finite constant %r in a real-valued term' % v)
  return z3.RealVal(Fraction(v))


def frac_of(val):
  """z3 numeral -> Fraction."""
  if z3.is_int_value(val):
    return Fraction(val.as_long())
  if z3.is_rational_value(val):
    return Fraction(val.numerator_as_long(), val.denominator_as_long())
  if z3.is_algebraic_value(val):
    a = val.approx(30)
    return Fraction(a.numerator_as_long(), a.denominator_as_long())
  raise ValueError('not a numeral: %s' % val)


class Engine:
  """Path explorer."""

  def __init__(self, branch_timeout_ms=2000, final_timeout_ms=30000,
               seed_np=True):
    self.solver = z3.Solver()
    self.branch_timeout_ms = branch_timeout_ms
    self.final_timeout_ms = final_timeout_ms
    self.decisions = []
    self.pos = 0
    self.pc = []
    self.subst = []
    self.fresh_n = 0
    self.sqrt_memo = {}
    self.sqrt_rad = {}
    self.sqrt_def_ids = set()
    self.vars = {}
    self.seed_np = seed_np
    self.stats = dict(paths=0, aborted=0, solver_calls=0, solver_s=0.0,
                      unknown=0, forks=0, concretised=0, final_queries=0,
                      final_unsat=0, final_sat=0, final_unknown=0)

  # -- solver plumbing -----------------------------------------------------
  def _check(self, *extra, timeout=None):
    self.solver.set('timeout', timeout or self.branch_timeout_ms)
    t = time.time()
    self.stats['solver_calls'] += 1
    r = self.solver.check(*extra)
    self.stats['solver_s'] += time.time() - t
    if r == z3.unknown:
      self.stats['unknown'] += 1
    return r

  def _add(self, c):
    self.solver.add(c)
    self.pc.append(c)

  def _norm(self, cond):
    if self.subst:
      cond = z3.substitute(cond, *self.subst)
    return z3.simplify(cond)

  # -- declarations --------------------------------------------------------
  def fresh(self, prefix, sort='real'):
    self.fresh_n += 1
    name = '%s!%d' % (prefix, self.fresh_n)
    return z3.Real(name) if sort == 'real' else z3.Int(name)

  def assume(self, cond):
    if isinstance(cond, SBool):
      cond = cond.e
    cond = self._norm(cond)
    if z3.is_true(cond):
      return
    if z3.is_false(cond):
      raise PathAbort('assume-false')
    self._add(cond)
    if self.pos >= len(self.decisions):
      if self._check() == z3.unsat:
        raise PathAbort('assume-unsat')

  # -- forking -------------------------------------------------------------
  def branch(self, cond):
    cond = self._norm(cond)
    if z3.is_true(cond):
      return True
    if z3.is_false(cond):
      return False
    if self.pos < len(self.decisions):
      taken = self.decisions[self.pos][0]
    else:
      rt = self._check(cond)
      rf = self._check(z3.Not(cond))
      if rt == z3.unsat and rf == z3.unsat:
        raise PathAbort('both-unsat')
      if rt == z3.unsat:
        taken, alt = False, False
      elif rf == z3.unsat:
        taken, alt = True, False
      else:
        taken, alt = True, True   # 'unknown' is explored as maybe-feasible
        self.stats['forks'] += 1
      self.decisions.append([taken, alt])
    self.pos += 1
    self._add(cond if taken else z3.Not(cond))
    return taken

  def concretize(self, expr):
    """Fork over the feasible values of an int/real term; returns a Fraction
    (or int for Int-sorted terms)."""
    expr = self._norm(expr)
    if z3.is_int_value(expr):
      return expr.as_long()
    if z3.is_rational_value(expr):
      return frac_of(expr)
    while True:
      if self.pos < len(self.decisions):
        d = self.decisions[self.pos]
        if len(d) != 3:
          raise RuntimeError('non-deterministic re-execution (concretize)')
        v = d[2]
      else:
        if self._check() != z3.sat:
          raise PathAbort('concretize-unsat')
        v = self.solver.model().eval(expr, model_completion=True)
        if not (z3.is_int_value(v) or z3.is_rational_value(v)):
          raise Unsupported('cannot concretise to a rational: %s' % v)
        self.decisions.append([True, True, v])
        self.stats['concretised'] += 1
      d = self.decisions[self.pos]
      taken = d[0]
      self.pos += 1
      c = (expr == v)
      self._add(c if taken else z3.Not(c))
      if not taken and self.pos >= len(self.decisions):
        if self._check() == z3.unsat:
          raise PathAbort('no-more-values')
      if taken:
        if z3.is_const(expr) and expr.decl().kind() == z3.Z3_OP_UNINTERPRETED:
          self.subst.append((expr, v))
        return v.as_long() if z3.is_int_value(v) else frac_of(v)

  # -- exploration ---------------------------------------------------------
  def explore(self, fn, on_path, max_paths=10**9, max_s=10**9):
    """Runs fn() once per feasible path.  on_path(engine, ('ok', value) |
    ('exc', exception)) is called at the end of each path with the path
    condition still asserted in self.solver.  Returns 'exhausted' or 'bound'.
    """
    t0 = time.time()
    self.decisions = []
    while True:
      self.pos = 0
      self.pc = []
      self.subst = []
      self.fresh_n = 0
      self.sqrt_memo = {}
      self.sqrt_rad = {}
      self.sqrt_def_ids = set()
      self.solver.push()
      _Cur.eng = self
      if self.seed_np:
        import numpy as np
        np.random.seed(0)
      try:
        try:
          res = ('ok', fn())
        except PathAbort as e:
          res = ('abort', e)
        except Unsupported:
          raise
        except Exception as e:  # pylint: disable=broad-except
          res = ('exc', e)
        if res[0] == 'abort':
          self.stats['aborted'] += 1
        else:
          self.stats['paths'] += 1
          on_path(self, res)
      finally:
        self.solver.pop()
        _Cur.eng = None
      while self.decisions and not self.decisions[-1][1]:
        self.decisions.pop()
      if not self.decisions:
        return 'exhausted'
      d = self.decisions[-1]
      d[0] = not d[0]
      d[1] = False
      if self.stats['paths'] >= max_paths or time.time() - t0 > max_s:
        return 'bound'

  # -- end-of-path obligation ----------------------------------------------
  def prove(self, prop, extra=(), timeout_ms=None):
    """Checks pc /\\ extra /\\ not prop.  Returns ('unsat', None),
    ('sat', model) or ('unknown', None)."""
    if isinstance(prop, SBool):
      prop = prop.e
    if isinstance(prop, bool):
      prop = z3.BoolVal(prop)
    self.stats['final_queries'] += 1
    self.solver.push()
    try:
      for c in extra:
        self.solver.add(c)
      self.solver.add(z3.Not(prop))
      r = self._check(timeout=timeout_ms or self.final_timeout_ms)
      if r == z3.unsat:
        self.stats['final_unsat'] += 1
        return 'unsat', None
      if r == z3.sat:
        self.stats['final_sat'] += 1
        return 'sat', self.solver.model()
      self.stats['final_unknown'] += 1
      return 'unknown', None
    finally:
      self.solver.pop()

  def witness(self, extra=(), timeout_ms=None):
    """A model of the current path condition (plus extra)."""
    self.solver.push()
    try:
      for c in extra:
        self.solver.add(c)
      r = self._check(timeout=timeout_ms or self.final_timeout_ms)
      return self.solver.model() if r == z3.sat else None
    finally:
      self.solver.pop()


def model_value(model, term):
  """Fraction value of a term in a model (model completion on)."""
  if isinstance(term, SNum):
    term = term.e
  return frac_of(model.eval(term, model_completion=True))


# ---------------------------------------------------------------------------
# symbolic values
# ---------------------------------------------------------------------------
def _lift(o):
  if isinstance(o, SNum):
    return o.e
  if isinstance(o, bool):
    return z3.IntVal(int(o))
  if isinstance(o, int):
    return z3.IntVal(o)
  if isinstance(o, float):
    if o != o or o in (float('inf'), float('-inf')):
      raise Unsupported('arithmetic with non-finite constant %r' % o)
    return z3.RealVal(Fraction(o))
  if isinstance(o, Fraction):
    return z3.RealVal(o)
  try:
    import numpy as np
    if isinstance(o, np.bool_):
      return z3.IntVal(int(o))
    if isinstance(o, np.integer):
      return z3.IntVal(int(o))
    if isinstance(o, np.floating):
      return _lift(float(o))
  except ImportError:
    pass
  return None


def _real(e):
  return z3.ToReal(e) if e.is_int() else e


class SBool:
  """Symbolic boolean."""
  __slots__ = ('e',)

  def __init__(self, e):
    self.e = e

  def __bool__(self):
    return eng().branch(self.e)

  def __and__(self, o):
    return SBool(z3.And(self.e, _b(o)))
  __rand__ = __and__

  def __or__(self, o):
    return SBool(z3.Or(self.e, _b(o)))
  __ror__ = __or__

  def __invert__(self):
    return SBool(z3.Not(self.e))

  def __int__(self):
    return int(bool(self))

  def __repr__(self):
    return 'SBool(%s)' % self.e


def _b(o):
  if isinstance(o, SBool):
    return o.e
  if isinstance(o, SNum):
    return o.e != 0
  return z3.BoolVal(bool(o))


class SNum:
  """Symbolic number (z3 Int or Real term)."""

  def __init__(self, e):
    self.e = e

  def _bin(self, o, f):
    if isinstance(o, float) and not isinstance(o, SNum) and (
        o != o or o in (float('inf'), float('-inf'))):
      return self._nonfinite(o, f)
    b = _lift(o)
    if b is None:
      return NotImplemented
    return SNum(f(self.e, b))

  def _nonfinite(self, o, f):
    """IEEE result of combining a finite symbolic real with +-inf / nan: the
    sign of the symbolic operand is decided by a fork."""
    if o != o:
      return float('nan')
    # probe the operation on concrete stand-ins for the three sign classes
    def probe(v):
      try:
        r = f(z3.RealVal(v), z3.RealVal(10**30 if o > 0 else -10**30))
        r = frac_of(z3.simplify(r))
      except Exception:  # pylint: disable=broad-except
        return None
      return r
    if eng().branch(self.e > 0):
      r = probe(2)
    elif eng().branch(self.e < 0):
      r = probe(-2)
    else:
      r = probe(0)
      if r is not None and r == 0 and probe(2) is not None and abs(
          probe(2)) > 10**20:
        return float('nan')        # 0 * inf
    if r is None:
      return float('nan')
    if abs(r) > 10**20:
      return float('inf') if r > 0 else float('-inf')
    if abs(r) < Fraction(1, 10**20):
      return 0.0
    raise Unsupported('non-finite arithmetic with an unexpected result')

  def __add__(self, o): return self._bin(o, lambda a, b: a + b)
  def __radd__(self, o): return self._bin(o, lambda a, b: b + a)
  def __sub__(self, o): return self._bin(o, lambda a, b: a - b)
  def __rsub__(self, o): return self._bin(o, lambda a, b: b - a)
  def __mul__(self, o): return self._bin(o, lambda a, b: a * b)
  def __rmul__(self, o): return self._bin(o, lambda a, b: b * a)

  def __truediv__(self, o):
    if isinstance(o, float) and not isinstance(o, SNum) and (
        o != o or o in (float('inf'), float('-inf'))):
      return self._nonfinite(o, lambda a, b: a / b)
    b = _lift(o)
    if b is None:
      return NotImplemented
    return SNum(_div(self.e, b))

  def __rtruediv__(self, o):
    if isinstance(o, float) and not isinstance(o, SNum) and (
        o != o or o in (float('inf'), float('-inf'))):
      return self._nonfinite(o, lambda a, b: b / a)
    b = _lift(o)
    if b is None:
      return NotImplemented
    return SNum(_div(b, self.e))

  def __floordiv__(self, o):
    b = _lift(o)
    if b is None or not (self.e.is_int() and b.is_int()):
      return NotImplemented
    return SNum(self.e / b)

  def __neg__(self): return SNum(-self.e)
  def __pos__(self): return self
  def __abs__(self): return SNum(z3.If(self.e >= 0, self.e, -self.e))

  def __pow__(self, o):
    if isinstance(o, SNum):
      o = eng().concretize(o.e)
    if o == 2:
      return SNum(self.e * self.e)
    if o == 1:
      return self
    if o == 0.5:
      return self.sqrt()
    if isinstance(o, int) and 0 <= o <= 4:
      r = z3.RealVal(1) if not self.e.is_int() else z3.IntVal(1)
      for _ in range(o):
        r = r * self.e
      return SNum(r)
    return NotImplemented

  def _cmp(self, o, f):
    if not isinstance(o, SNum) and isinstance(o, float) and (
        o != o or o in (float('inf'), float('-inf'))):
      # symbolic values are finite reals: fold the IEEE comparison.
      z0, z1 = z3.RealVal(0), z3.RealVal(1)
      lt = z3.is_true(z3.simplify(f(z0, z1)))
      gt = z3.is_true(z3.simplify(f(z1, z0)))
      eq = z3.is_true(z3.simplify(f(z0, z0)))
      if o != o:
        return SBool(z3.BoolVal(lt and gt and not eq))
      return SBool(z3.BoolVal(lt if o > 0 else gt))
    b = _lift(o)
    if b is None:
      return NotImplemented
    return SBool(f(self.e, b))

  def __lt__(self, o): return self._cmp(o, lambda a, b: a < b)
  def __le__(self, o): return self._cmp(o, lambda a, b: a <= b)
  def __gt__(self, o): return self._cmp(o, lambda a, b: a > b)
  def __ge__(self, o): return self._cmp(o, lambda a, b: a >= b)
  def __eq__(self, o): return self._cmp(o, lambda a, b: a == b)
  def __ne__(self, o): return self._cmp(o, lambda a, b: a != b)

  def __hash__(self):
    return hash(eng().concretize(self.e))

  def __index__(self):
    if not self.e.is_int():
      raise Unsupported('__index__ on a real-valued symbolic term')
    return int(eng().concretize(self.e))

  def __int__(self):
    if self.e.is_int():
      return int(eng().concretize(self.e))
    # int() truncates towards zero: concretise the integer part.
    t = z3.If(self.e >= 0, z3.ToInt(self.e), -z3.ToInt(-self.e))
    return int(eng().concretize(t))

  def __float__(self):
    raise Unsupported('float() of a symbolic value (would concretise '
                      'silently): %s' % str(self.e)[:80])

  def __bool__(self):
    return eng().branch(self.e != 0)

  def __round__(self, nd=None):
    raise Unsupported('round() of a symbolic value')

  def conjugate(self):
    return self

  def sqrt(self):
    e = eng()
    key = self.e.get_id()
    if key in e.sqrt_memo:
      return SNum(e.sqrt_memo[key])
    r = e.fresh('sqrt')
    c = z3.And(r >= 0, r * r == _real(self.e))
    e._add(c)
    e.sqrt_def_ids.add(c.get_id())
    e.sqrt_memo[key] = r
    e.sqrt_rad[r.get_id()] = (r, _real(self.e))
    return SNum(r)

  def __repr__(self):
    return 'S(%s)' % self.e


def _div(a, b):
  return _real(a) / _real(b)


def real(name, lo=None, hi=None, lo_strict=True, hi_strict=True):
  v = z3.Real(name)
  e = eng()
  e.vars[name] = v
  if lo is not None:
    e.assume(v > F(lo) if lo_strict else v >= F(lo))
  if hi is not None:
    e.assume(v < F(hi) if hi_strict else v <= F(hi))
  return SNum(v)


def integer(name, lo=None, hi=None):
  v = z3.Int(name)
  e = eng()
  e.vars[name] = v
  if lo is not None:
    e.assume(v >= lo)
  if hi is not None:
    e.assume(v <= hi)
  return SNum(v)


def boolean(name):
  return SBool(z3.Bool(name))


def choose(name, lo, hi):
  """A symbolic int in [lo, hi], immediately concretised (forks per value)."""
  v = integer(name, lo, hi)
  return int(eng().concretize(v.e))


def flag(name):
  """A symbolic boolean, immediately decided (forks)."""
  return bool(boolean(name))


def has_sym(x):
  import numpy as np
  if isinstance(x, (SNum, SBool)):
    return True
  if isinstance(x, np.ndarray) and x.dtype == object:
    return any(isinstance(v, (SNum, SBool)) for v in x.ravel())
  return False


_PATCHED = {}


def patch_pandas():
  """pandas' reduction guard rejects object arrays; pass symbolic ones
  through (recorded as an environment patch in every evidence file)."""
  if 'nanops' in _PATCHED:
    return
  import pandas.core.nanops as nanops
  orig = nanops._ensure_numeric

  def _ens(x):
    if has_sym(x):
      return x
    return orig(x)
  nanops._ensure_numeric = _ens
  _PATCHED['nanops'] = orig


# ---------------------------------------------------------------------------
# which repo functions ran (evidence: "functions encoded")
# ---------------------------------------------------------------------------
class FunctionTrace:
  """Records qualified names of functions of the repo executed while on."""

  def __init__(self, root):
    self.root = os.path.realpath(root)
    self.seen = set()
    self._on = False

  def start(self):
    mon = sys.monitoring
    self.tool = mon.COVERAGE_ID
    try:
      mon.use_tool_id(self.tool, 'vf')
    except ValueError:
      self.tool = mon.PROFILER_ID
      mon.use_tool_id(self.tool, 'vf')

    def cb(code, offset):
      fn = code.co_filename
      if fn.startswith(self.root) and '/tests/' not in fn:
        self.seen.add('%s:%s' % (os.path.relpath(fn, self.root),
                                 code.co_qualname))
      return mon.DISABLE
    mon.register_callback(self.tool, mon.events.PY_START, cb)
    mon.set_events(self.tool, mon.events.PY_START)
    self._on = True

  def stop(self):
    if self._on:
      mon = sys.monitoring
      mon.set_events(self.tool, 0)
      mon.register_callback(self.tool, mon.events.PY_START, None)
      mon.free_tool_id(self.tool)
      self._on = False
    return sorted(self.seen)


# ---------------------------------------------------------------------------
# symbolic numbers that pass isinstance(v, int) / isinstance(v, float)
# ---------------------------------------------------------------------------
# isinstance() consults obj.__class__, so a __class__ property is enough; real
# subclassing of int/float would let C-level comparisons (float.__le__(0.0,
# int_subclass)) silently use the dummy base value instead of the z3 term.
class SFloat(SNum):
  """A symbolic finite real that code under test sees as a `float`."""

  @property
  def __class__(self):
    return float


class SInt(SNum):
  """A symbolic integer that code under test sees as an `int`."""

  @property
  def __class__(self):
    return int
